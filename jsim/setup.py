"""./check setup - verify the offline environment; fetch nothing."""
import os
import sys


def main() -> int:
    os.makedirs("/verif/.work", exist_ok=True)
    os.makedirs("/verif/.cache/jax", exist_ok=True)
    os.makedirs("/verif/evidence", exist_ok=True)
    os.makedirs("/verif/replays", exist_ok=True)
    import jax  # noqa: F401
    import jumanji

    if not os.path.realpath(jumanji.__file__).startswith(os.path.realpath(os.environ.get("JSIM_REPO", "/repo")) + "/"):
        print(f"setup: jumanji imported from {jumanji.__file__}, expected /repo", file=sys.stderr)
        return 2
    from jsim import envs

    print("setup: ok;", len(envs.MODULES), "environment adapters; jax", jax.__version__)
    return 0
