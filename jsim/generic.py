"""The generic closed loop: one env, one episode per run, seeded scheduler choosing policies and
faults (ILLEGAL, POST_TERMINAL; CLOCK_EDGE is a property of the configuration)."""
from __future__ import annotations

from typing import Any, Dict, List, Optional, Tuple

import numpy as np

from jsim.core import Ctx, OpSource, Rec, is_last

POLICIES = ["LEGAL_UNIFORM", "MASK_UNIFORM", "LEGAL_FIRST", "LEGAL_LAST", "UNIFORM_INSPEC", "ILLEGAL_BIASED",
            "SURVIVE", "COMPLETE", "COLLIDE"]


class Plan:
    def __init__(self, weights: Dict[str, float], illegal_rate: float = 0.0, post_terminal: int = 0,
                 max_steps: int = 200, sticky: bool = False, follow_env_mask: bool = False):
        self.weights = weights
        self.illegal_rate = illegal_rate
        self.post_terminal = post_terminal
        self.max_steps = max_steps
        self.sticky = sticky  # keep one policy for the whole run
        self.follow_env_mask = follow_env_mask  # policies choose within the env's own mask (mask-respecting play)

    def describe(self) -> Dict[str, Any]:
        return {"weights": self.weights, "illegal_rate": self.illegal_rate, "post_terminal": self.post_terminal,
                "max_steps": self.max_steps, "sticky": self.sticky, "follow_env_mask": self.follow_env_mask}


def swarm_weights(rng: np.random.Generator, allowed: List[str], k_min: int = 1, k_max: int = 3) -> Dict[str, float]:
    k = int(rng.integers(k_min, min(k_max, len(allowed)) + 1))
    chosen = [allowed[i] for i in sorted(rng.choice(len(allowed), size=k, replace=False))]
    return {p: float(rng.integers(1, 5)) for p in chosen}


class GenericScheduler(OpSource):
    def __init__(self, sysm: Any, rng: np.random.Generator, plan: Plan):
        self.sys = sysm
        self.rng = rng
        self.plan = plan
        self.post = 0
        names = sorted(plan.weights)
        self.names = names
        w = np.asarray([plan.weights[n] for n in names], dtype=float)
        self.p = w / w.sum()
        self.fixed = names[int(rng.choice(len(names), p=self.p))] if plan.sticky else None

    def first(self) -> List[Any]:
        return ["reset", int(self.rng.integers(0, 2**31 - 1))]

    # -------------------------------------------------------------------------------------------
    def _bounds(self, ctx: Ctx, rec: Rec) -> Tuple[Optional[np.ndarray], Optional[np.ndarray], Optional[np.ndarray]]:
        ad = self.sys.adapter
        envmask = ad.env_mask(rec.ts.observation) if ad.mask_mode else None
        b = ad.legal_bounds(rec.state, self.sys.env) if ad.mask_mode else None
        if b is None or (self.plan.follow_env_mask and envmask is not None):
            return envmask, envmask, envmask
        lo, hi = b
        return lo, hi, envmask

    def _policy_action(self, name: str, ctx: Ctx, rec: Rec, lo: Any, hi: Any, envmask: Any) -> Tuple[Any, bool]:
        ad, env, rng = self.sys.adapter, self.sys.env, self.rng
        legal = lo if (lo is not None and lo.any()) else hi
        if ad.mask_mode is None or legal is None:
            if name in ("SURVIVE", "COMPLETE", "COLLIDE"):
                a = ad.safe_policy(name.lower(), rec.state, env, rng, envmask)
                if a is not None:
                    return a, False
            return ad.inspec_action(env, rng), False
        if name == "UNIFORM_INSPEC":
            return ad.inspec_action(env, rng), False
        if name == "MASK_UNIFORM" and envmask is not None:
            return ad.pick(envmask, rng)
        if name == "MASK_FIRST" and envmask is not None:
            return ad.pick(envmask, rng, "first")
        if name == "MASK_LAST" and envmask is not None:
            return ad.pick(envmask, rng, "last")
        if name == "LEGAL_FIRST":
            return ad.pick(legal, rng, "first")
        if name == "LEGAL_LAST":
            return ad.pick(legal, rng, "last")
        if name == "ILLEGAL_BIASED":
            bad = ~hi
            if ad.mask_mode == "per_agent":
                # rows without an illegal action fall back to a legal one
                mix = np.where(bad.any(axis=1, keepdims=True), bad, legal)
                return ad.pick(mix, rng)
            if bad.any():
                return ad.pick(bad, rng)
            return ad.pick(legal, rng)
        if name in ("SURVIVE", "COMPLETE", "COLLIDE"):
            a = ad.safe_policy(name.lower(), rec.state, env, rng, legal)
            if a is not None:
                return a, False
        return ad.pick(legal, rng)

    def _inject_illegal(self, action: Any, hi: np.ndarray) -> Optional[Any]:
        ad, rng = self.sys.adapter, self.rng
        bad = ~hi
        if not bad.any():
            return None
        if ad.mask_mode == "per_agent":
            rows = np.flatnonzero(bad.any(axis=1))
            k = int(rng.integers(1, len(rows) + 1))
            chosen = sorted(rng.choice(rows, size=k, replace=False))
            out = list(action)
            for i in chosen:
                idx = np.flatnonzero(bad[i])
                out[int(i)] = int(idx[int(rng.integers(0, len(idx)))])
            return out
        a, _ = ad.pick(bad, rng)
        return a

    def next(self, ctx: Ctx, rec: Rec) -> Optional[List[Any]]:
        ad, env, rng, plan = self.sys.adapter, self.sys.env, self.rng, self.plan
        if is_last(rec.ts):
            if self.post >= plan.post_terminal:
                return None
            self.post += 1
            return ["step", ad.inspec_action(env, rng), "POST_TERMINAL"]
        if rec.t >= plan.max_steps:
            return None
        lo, hi, envmask = self._bounds(ctx, rec)
        name = self.fixed or self.names[int(rng.choice(len(self.names), p=self.p))]
        ctx.stats.inc(ctx.stats.policies, name)
        action, forced = self._policy_action(name, ctx, rec, lo, hi, envmask)
        fault = None
        if forced:
            ctx.stats.probe("no_legal_action_mid")
            fault = "FORCED_ILLEGAL"
        # faults are biased to land in the endgame: when (almost) no legal move is left - the last cell, the last
        # city, the last item - an illegal action is injected far more often than the base rate
        endgame = hi is not None and lo is not None and ad.mask_mode != "per_agent" and 0 < int(np.asarray(lo).sum()) <= 2
        rate = max(plan.illegal_rate, 0.35) if (endgame and plan.illegal_rate > 0) else plan.illegal_rate
        if rate > 0 and hi is not None and rng.random() < rate:
            a2 = self._inject_illegal(action, hi)
            if a2 is not None:
                action, fault = a2, "ILLEGAL"
        return ["step", action, fault]
