"""C02: several logical clients share one Environment object (a stateless server). The scheduler
interleaves, duplicates, reorders and batches their requests over four transports (EAGER, JIT, VMAP,
SCAN), injects decoy calls and crash/restart of the server object. Oracles: (1) every response equals
the response of a pristine reference instance to the same request; (2) arguments are bit-identical
before/after EAGER and JIT calls; (3) per-client histories equal the histories of each client run
alone, sequentially.
"""
from __future__ import annotations

import pickle
import time
from typing import Any, Dict, List, Optional, Tuple

import numpy as np

from jsim import util
from jsim.core import Stats, Violation, shrink
from jsim.wrapsim import choose_action, stack, unstack

EAGER_COST = {"PacMan": 0.02, "BinPack": 0.03, "MMST": 0.03, "RobotWarehouse": 0.04, "FlatPack": 0.05, "JobShop": 0.05,
              "LevelBasedForaging": 0.05, "MultiCVRP": 0.05, "Connector": 0.05, "Sokoban": 0.05, "Cleaner": 0.05}


def snapshot(tree: Any) -> Tuple[Any, List[int], List[Tuple[str, Tuple[int, ...], bytes]]]:
    import jax

    leaves, treedef = jax.tree_util.tree_flatten(tree)
    return treedef, [id(x) for x in leaves], [(str(np.asarray(x).dtype), tuple(np.shape(x)), np.asarray(x).tobytes()) for x in leaves]


class PureSys:
    def __init__(self, adapter: Any, cfg: Dict[str, Any]):
        import jax

        self.jax = jax
        self.adapter, self.cfg = adapter, cfg
        self.ref_env = adapter.build(cfg)           # pristine instance, never shared with the clients
        self.ref_step = jax.jit(self.ref_env.step)
        self.ref_reset = jax.jit(self.ref_env.reset)
        self.env = self.ref_env                        # alias used by the policies (read-only use)
        self.dtype = self.ref_env.action_spec.dtype
        self.flag = False
        self.boot()

    def boot(self, same_object: bool = False) -> None:
        """(Re)start the server: a brand-new Environment object and brand-new jit wrappers
        (same_object=True: only the jit wrappers are new, i.e. the functions are traced again)."""
        jax = self.jax
        if not same_object:
            self.srv = self.adapter.build(self.cfg)
        self.j_step = jax.jit(self.srv.step)
        self.j_reset = jax.jit(self.srv.reset)
        self.v_step = jax.jit(jax.vmap(self.srv.step))
        self._scan: Dict[int, Any] = {}

    def scan(self, k: int) -> Any:
        jax = self.jax
        if k not in self._scan:
            def roll(s, acts):
                def body(c, a):
                    ns, ts = self.srv.step(c, a)
                    return ns, (ns, ts)
                return jax.lax.scan(body, s, acts)
            self._scan[k] = jax.jit(roll)
        return self._scan[k]

    def act(self, a: Any) -> Any:
        import jax.numpy as jnp

        return jnp.asarray(a, dtype=self.dtype)


class Client:
    def __init__(self, key: int):
        self.key0 = key
        self.episode = 0
        self.state: Any = None        # jax state from the server's last response
        self.ts: Any = None           # np timestep of the last response
        self.need_reset = True
        self.history: List[Tuple[str, Any]] = []  # ("reset", key) / ("step", action)
        self.final: Any = None

    def next_key(self) -> int:
        return (self.key0 + 7919 * self.episode) % (2**31 - 1)


class PureRun:
    def __init__(self, ps: PureSys, stats: Stats, n_clients: int, keys: List[int]):
        self.ps, self.stats = ps, stats
        self.clients = [Client(k) for k in keys]
        self.log: List[Tuple[str, Any, Any, Any]] = []  # (kind, arg state|key, action, np response) for DUPLICATE

    def fail(self, monitor: str, cls: str, detail: str) -> None:
        raise Violation("C02", self.ps.adapter.name, monitor, cls, detail)

    # ---- oracles -----------------------------------------------------------------------------------
    def check_response(self, where: str, kind: str, arg: Any, action: Any, got: Any) -> None:
        ps = self.ps
        if kind == "reset":
            want = ps.ref_reset(ps.jax.random.PRNGKey(int(arg)))
        else:
            want = ps.ref_step(arg, ps.act(action))
        d = util.tree_diff(util.to_np(got), util.to_np(want))
        self.stats.check("responses_compared")
        if d:
            self.fail("response_determinism", f"{where.split(':')[0].lower()}_response_differs_from_reference",
                      f"{where}: {kind} request answered differently from the pristine per-call reference: {d[:3]}")

    def guarded_call(self, where: str, fn: Any, *args: Any) -> Any:
        for a in args:
            self.readable(a, where)
        snaps = [snapshot(a) for a in args]
        try:
            out = fn(*args)
        except Exception as e:  # noqa: BLE001
            # the request is well-formed (the pristine reference answers it - checked below); a server that
            # raises on it after some call history is not a deterministic function of its arguments
            self._reference_answers(args)
            self.fail("response_determinism", "request_raised_after_call_history:" + type(e).__name__,
                      f"{where}: the shared Environment object raised {type(e).__name__}: {str(e)[:160]} on a request the pristine "
                      "reference answers")
        for n, (a, (treedef, ids, data)) in enumerate(zip(args, snaps)):
            t2, ids2, data2 = snapshot(a)
            self.stats.check("argument_snapshots")
            if t2 != treedef:
                self.fail("argument_integrity", "argument_structure_changed", f"{where}: structure of argument {n} changed during the call")
            if ids2 != ids:
                k = [i for i, (x, y) in enumerate(zip(ids, ids2)) if x != y][0]
                self.fail("argument_integrity", "argument_leaf_replaced", f"{where}: leaf {k} of argument {n} was rebound during the call (the caller's "
                          "object was modified)")
            if data2 != data:
                k = [i for i, (x, y) in enumerate(zip(data, data2)) if x != y][0]
                self.fail("argument_integrity", "argument_bytes_changed", f"{where}: leaf {k} of argument {n} changed value during the call")
        return out

    def _reference_answers(self, args: Any) -> None:
        ps = self.ps
        if len(args) == 1:
            ps.ref_reset(args[0])
        else:
            ps.ref_step(*args)  # raises (harness error) if the request itself is at fault

    # ---- deliveries --------------------------------------------------------------------------------
    def request_of(self, c: Client, action: Any) -> Tuple[str, Any, Any]:
        if c.need_reset:
            return ("reset", c.next_key(), None)
        self.check_held_state(c)
        return ("step", c.state, action)

    def readable(self, state: Any, where: str) -> None:
        """Any state the simulator hands back to the server was returned by the server earlier; it must
        still be a readable value (no leaked tracer, no deleted buffer)."""
        try:
            util.to_np(state)
        except Exception as e:  # noqa: BLE001
            self.fail("response_integrity", "returned_state_corrupted_by_later_calls:" + type(e).__name__,
                      f"{where}: a state returned earlier can no longer be read: {type(e).__name__}: {str(e)[:160]}")

    def check_held_state(self, c: Client) -> None:
        """A response, once returned to a client, is the client's value: calls made since (by anybody) must
        not have changed or corrupted it (aliasing with state cached on the env / generator object)."""
        if c.state is None or getattr(c, "held_digest", None) is None:
            return
        try:
            now = util.tree_digest(util.to_np(c.state))
        except Exception as e:  # noqa: BLE001  (e.g. a leaked tracer inside the returned state)
            self.fail("response_integrity", "returned_state_corrupted_by_later_calls:" + type(e).__name__,
                      f"client {self.clients.index(c)}: the state returned earlier can no longer be read: {type(e).__name__}: {str(e)[:160]}")
        self.stats.check("held_states_rechecked")
        if now != c.held_digest:  # type: ignore[attr-defined]
            self.fail("response_integrity", "returned_state_changed_by_later_calls",
                      f"client {self.clients.index(c)}: the state returned earlier changed value although the client did nothing")

    def accept(self, c: Client, kind: str, arg: Any, action: Any, resp: Any) -> None:
        s, ts = resp
        c.state = s
        c.ts = util.to_np(ts)
        c.held_digest = util.tree_digest(util.to_np(s))  # type: ignore[attr-defined]
        c.history.append((kind, arg if kind == "reset" else action))
        if kind == "reset":
            c.need_reset = False
        if int(np.asarray(ts.step_type)) == 2:
            c.need_reset = True
            c.episode += 1
        self.log.append((kind, arg, action, None))
        self.stats.states.add(util.state_digest(util.to_np(s)))
        self.stats.steps += 1

    def deliver(self, ci: int, transport: str, action: Any) -> None:
        ps, c = self.ps, self.clients[ci]
        kind, arg, action = self.request_of(c, action)
        self.stats.inc(self.stats.transports, transport)
        where = f"{transport}: client {ci}"
        if kind == "reset":
            key = ps.jax.random.PRNGKey(int(arg))
            fn = ps.srv.reset if transport == "EAGER" else ps.j_reset
            resp = self.guarded_call(where, fn, key)
        else:
            fn = ps.srv.step if transport == "EAGER" else ps.j_step
            resp = self.guarded_call(where, fn, arg, ps.act(action))
        self.check_response(where, kind, arg, action, resp)
        self.accept(c, kind, arg, action, resp)

    def deliver_vmap(self, cis: List[int], actions: List[Any], size: int, slots: List[int], decoys: List[int]) -> None:
        """Batch the step requests of clients ``cis`` into one vmapped call of ``size`` elements; the
        remaining slots are filled with decoy requests (earlier step requests from the log)."""
        ps = self.ps
        self.stats.inc(self.stats.transports, "VMAP")
        reqs: List[Optional[Tuple[Any, Any]]] = [None] * size
        for ci, a, sl in zip(cis, actions, slots):
            self.check_held_state(self.clients[ci])
            reqs[sl] = (self.clients[ci].state, a)
        step_log = [e for e in self.log if e[0] == "step"]
        di = 0
        for sl in range(size):
            if reqs[sl] is None:
                if step_log:
                    e = step_log[decoys[di % len(decoys)] % len(step_log)] if decoys else step_log[0]
                    di += 1
                    reqs[sl] = (e[1], e[2])
                    self.stats.inc(self.stats.faults, "DECOY")
                else:
                    reqs[sl] = reqs[slots[0]]
        for r in reqs:
            self.readable(r[0], "VMAP: batched request")  # type: ignore[index]
        bs = stack([r[0] for r in reqs])  # type: ignore[index]
        ba = ps.act(np.asarray([r[1] for r in reqs]))  # type: ignore[index]
        try:
            out_s, out_ts = ps.v_step(bs, ba)
        except Exception as e:  # noqa: BLE001
            for r in reqs:
                ps.ref_step(r[0], ps.act(r[1]))  # type: ignore[index]
            self.fail("response_determinism", "request_raised_after_call_history:" + type(e).__name__,
                      f"VMAP: the shared Environment object raised {type(e).__name__}: {str(e)[:160]} on requests the pristine reference answers")
        outs = list(zip(unstack(out_s, size), unstack(out_ts, size)))
        for sl, r in enumerate(reqs):
            self.check_response(f"VMAP: slot {sl}/{size}", "step", r[0], r[1], outs[sl])  # type: ignore[index]
        for ci, a, sl in zip(cis, actions, slots):
            c = self.clients[ci]
            self.accept(c, "step", c.state, a, outs[sl])

    def deliver_scan(self, ci: int, actions: List[Any]) -> None:
        ps, c = self.ps, self.clients[ci]
        self.stats.inc(self.stats.transports, "SCAN")
        self.check_held_state(c)
        k = len(actions)
        try:
            _, (ss, tss) = ps.scan(k)(c.state, ps.act(np.asarray(actions)))
        except Exception as e:  # noqa: BLE001
            ps.ref_step(c.state, ps.act(actions[0]))
            self.fail("response_determinism", "request_raised_after_call_history:" + type(e).__name__,
                      f"SCAN: client {ci}: the shared Environment object raised {type(e).__name__}: {str(e)[:160]}")
        cur = c.state
        for t in range(k):
            s_t = ps.jax.tree_util.tree_map(lambda x: x[t], ss)
            ts_t = ps.jax.tree_util.tree_map(lambda x: x[t], tss)
            self.check_response(f"SCAN: client {ci} step {t}/{k}", "step", cur, actions[t], (s_t, ts_t))
            if int(np.asarray(ts_t.step_type)) == 2 and t < k - 1:
                # the burst ran past the end of the episode: the remaining outputs are unspecified
                self.accept(c, "step", cur, actions[t], (s_t, ts_t))
                return
            self.accept(c, "step", cur, actions[t], (s_t, ts_t))
            cur = s_t

    def duplicate(self, idx: int, transport: str) -> None:
        """Deliver an old request again; the answer must still be the reference answer."""
        ps = self.ps
        if not self.log:
            return
        kind, arg, action, _ = self.log[idx % len(self.log)]
        self.stats.inc(self.stats.faults, "DUPLICATE")
        self.stats.inc(self.stats.transports, transport)
        where = f"{transport}: duplicate of request {idx % len(self.log)}"
        if kind == "reset":
            key = ps.jax.random.PRNGKey(int(arg))
            resp = self.guarded_call(where, ps.srv.reset if transport == "EAGER" else ps.j_reset, key)
        else:
            resp = self.guarded_call(where, ps.srv.step if transport == "EAGER" else ps.j_step, arg, ps.act(action))
        self.check_response(where, kind, arg, action, resp)

    def decoy(self, what: str, n: int) -> None:
        ps = self.ps
        self.stats.inc(self.stats.faults, "DECOY")
        if what == "specs":
            _ = (ps.srv.observation_spec, ps.srv.action_spec, ps.srv.reward_spec, ps.srv.discount_spec)
            ps.srv.action_spec.generate_value()
        elif what == "repr":
            repr(ps.srv)
        elif what == "reset":
            ps.j_reset(ps.jax.random.PRNGKey(int(n)))
        elif what == "genstep":
            s, _ = ps.j_reset(ps.jax.random.PRNGKey(int(n)))
            ps.j_step(s, ps.srv.action_spec.generate_value())
        elif what == "wrappers":
            # another client drives the same object through the library's wrappers (plain Python calls), then the server's
            # functions are traced anew: whatever the wrappers left behind - on the object, in module-level defaults shared by
            # all timesteps - would now flow into the answers to ordinary requests
            from jumanji.wrappers import AutoResetWrapper, VmapWrapper

            key = ps.jax.random.PRNGKey(int(n))
            w = AutoResetWrapper(ps.srv, next_obs_in_extras=True)
            s, _ = w.reset(key)
            w.step(s, ps.srv.action_spec.generate_value())
            VmapWrapper(ps.srv).reset(ps.jax.random.split(key, 2))
            ps.boot(same_object=True)

    def crash(self, clear: bool) -> None:
        """CRASH_RESTART: the Environment object and every compiled function are lost; only the clients'
        states survive, through a pickle round trip of their NumPy leaves."""
        ps = self.ps
        self.stats.inc(self.stats.faults, "CRASH_RESTART")
        for c in self.clients:
            if c.state is not None:
                # the restarted process hands JAX arrays to the library again (users never pass NumPy leaves to eager code)
                self.check_held_state(c)
                leaves, treedef = ps.jax.tree_util.tree_flatten(c.state)
                blob = pickle.dumps([np.asarray(x) for x in leaves])
                c.state = ps.jax.tree_util.tree_unflatten(treedef, [ps.jax.numpy.asarray(x) for x in pickle.loads(blob)])
                c.held_digest = util.tree_digest(util.to_np(c.state))  # type: ignore[attr-defined]
        if clear:
            ps.jax.clear_caches()
            self.stats.probe("clear_caches")
        ps.boot()

    def retrace(self) -> None:
        """RETRACE: the same server object is wrapped in jax.jit again, so step/reset are traced anew -
        whatever hidden Python state earlier (eager) calls left on the object now flows into the trace."""
        self.stats.inc(self.stats.faults, "RETRACE")
        ps = self.ps
        ps.boot(same_object=True)
        # another client triggers the tracing straight away (reset and step are traced on decoy requests)
        s, _ = ps.j_reset(ps.jax.random.PRNGKey(12345))
        ps.j_step(s, ps.srv.action_spec.generate_value())

    def on_end(self) -> None:
        """Order independence: every client, run alone and sequentially on the pristine instance,
        reaches the same final state."""
        ps = self.ps
        for ci, c in enumerate(self.clients):
            self.check_held_state(c)
            s = None
            for kind, x in c.history:
                if kind == "reset":
                    s, _ = ps.ref_reset(ps.jax.random.PRNGKey(int(x)))
                else:
                    s, _ = ps.ref_step(s, ps.act(x))
            if s is not None:
                d = util.tree_diff(util.to_np(c.state), util.to_np(s))
                self.stats.check("client_histories_replayed_alone")
                if d:
                    self.fail("order_independence", "interleaved_history_differs_from_solo_history",
                              f"client {ci}: final state after the interleaved schedule differs from the client run alone: {d[:3]}")


def apply_op(run: PureRun, op: List[Any]) -> None:
    k = op[0]
    if k == "deliver":
        run.deliver(int(op[1]), op[2], op[3])
    elif k == "vmap":
        run.deliver_vmap(op[1], op[2], int(op[3]), op[4], op[5])
    elif k == "scan":
        run.deliver_scan(int(op[1]), op[2])
    elif k == "dup":
        run.duplicate(int(op[1]), op[2])
    elif k == "decoy":
        run.decoy(op[1], int(op[2]))
    elif k == "crash":
        run.crash(bool(op[1]))
    elif k == "retrace":
        run.retrace()
    else:
        raise ValueError(k)


def valid_op(run: PureRun, op: List[Any]) -> bool:
    """During shrinking some ops lose their precondition (e.g. a vmap of a client that now needs a
    reset); such candidates are skipped rather than executed."""
    k = op[0]
    if k == "vmap":
        return all(not run.clients[c].need_reset and run.clients[c].state is not None for c in op[1])
    if k == "scan":
        c = run.clients[int(op[1])]
        return not c.need_reset and c.state is not None
    if k == "deliver":
        c = run.clients[int(op[1])]
        return c.need_reset or op[3] is not None
    return True


def execute(ps: PureSys, ops: Dict[str, Any], stats: Stats, fresh: bool = True) -> PureRun:
    if fresh:
        ps.boot()
    run = PureRun(ps, stats, len(ops["keys"]), ops["keys"])
    for op in ops["ops"]:
        if valid_op(run, op):
            apply_op(run, op)
    run.on_end()
    return run


def generate_and_run(ps: PureSys, rng: np.random.Generator, stats: Stats, tier: str, force_eager_only: bool = False
                     ) -> Tuple[Dict[str, Any], PureRun]:
    n_clients = int(rng.integers(2, 5))
    keys = [int(rng.integers(0, 2**31 - 1)) for _ in range(n_clients)]
    ops: Dict[str, Any] = {"keys": keys, "ops": []}
    run = PureRun(ps, stats, n_clients, keys)
    n_deliveries = int(rng.integers(10, 41))
    eager_p = EAGER_COST.get(ps.adapter.name, 0.12)
    crash_p = float(rng.choice([0.0, 0.0, 0.03]))
    rr = 0
    # EAGER_ONLY client: in some runs one client is served by plain Python calls only, from its reset to the end of its
    # episode, so its state never passes through a jax transformation (Python-int / weak-typed leaves stay what the
    # library made them) - "plain per-call Python execution" for a whole episode, compared step by step with the jitted reference
    # (always in the first run of a task, so that every (env, configuration) gets at least one such client)
    eager_only = int(rng.integers(0, n_clients)) if (rng.random() < (0.12 if ps.adapter.name in EAGER_COST else 0.35) or force_eager_only) else -1
    if eager_only >= 0:
        stats.inc(stats.faults, "EAGER_ONLY_CLIENT")

    def act_for(ci: int) -> Any:
        c = run.clients[ci]
        if c.need_reset:
            return None
        run.check_held_state(c)  # the policy reads the state the client holds: it must still be the value that was returned
        if ci == eager_only:
            # the eager-only client plays towards the end of its episode (completion-driving moves, a few wasted or
            # illegal ones in between): the terminal step and the steps around it are where Python-typed leaves matter
            r = rng.random()
            s_np = util.to_np(c.state)
            if r < 0.65:
                ad = ps.adapter
                m = ad.env_mask(c.ts.observation) if ad.mask_mode else None
                a = ad.safe_policy("complete", s_np, ps.env, rng, m if (m is None or m.any()) else None)
                if a is not None:
                    return a
            if r < 0.8:
                return ps.adapter.inspec_action(ps.env, rng)
            return choose_action(ps, s_np, c.ts, rng, False, stats)  # type: ignore[arg-type]
        return choose_action(ps, util.to_np(c.state), c.ts, rng, bool(rng.random() < 0.1), stats)  # type: ignore[arg-type]

    def emit(op: List[Any]) -> None:
        op = util.jsonable(op)
        ops["ops"].append(op)
        apply_op(run, op)

    try:
        for _ in range(n_deliveries):
            r = rng.random()
            if r < crash_p:
                emit(["crash", bool(tier == "thorough" and rng.random() < 0.3)])
                continue
            if r < crash_p + 0.05:
                emit(["retrace"])
                continue
            if r < 0.10:
                emit(["decoy", str(rng.choice(["specs", "repr", "reset", "genstep", "wrappers"])), int(rng.integers(0, 1000))])
                continue
            if r < 0.22 and run.log:
                emit(["dup", int(rng.integers(0, len(run.log))), "EAGER" if rng.random() < eager_p else "JIT"])
                continue
            ci = int(rng.integers(0, n_clients))
            if ci != rr:
                stats.inc(stats.faults, "REORDER")
            rr = (ci + 1) % n_clients
            ready = [i for i, c in enumerate(run.clients) if not c.need_reset and i != eager_only]
            if ci == eager_only or (eager_only >= 0 and rng.random() < 0.5):
                # the eager-only client gets half of the deliveries, so that it reaches the end of its episode
                ci = eager_only
                emit(["deliver", ci, "EAGER", act_for(ci)])
                continue
            if r < 0.45 and ready:
                k = int(rng.integers(1, len(ready) + 1))
                cis = sorted(int(x) for x in rng.choice(ready, size=k, replace=False))
                size = 1 if (k == 1 and rng.random() < 0.3) else (2 if k <= 2 else 4)  # few batch sizes: each one is a compilation
                slots = sorted(int(x) for x in rng.choice(size, size=k, replace=False))
                emit(["vmap", cis, [act_for(i) for i in cis], size, slots, [int(x) for x in rng.integers(0, 1000, size=4)]])
                continue
            if r < 0.6 and ready:
                ci = int(rng.choice(ready))
                k = int(rng.choice([2, 4]))
                # the burst's actions are fixed in advance by following the reference forward
                s, ts = run.clients[ci].state, run.clients[ci].ts
                acts = []
                for _t in range(k):
                    a = choose_action(ps, util.to_np(s), ts, rng, False, stats)  # type: ignore[arg-type]
                    acts.append(a)
                    s, jts = ps.ref_step(s, ps.act(a))
                    ts = util.to_np(jts)
                emit(["scan", ci, acts])
                continue
            # resets are delivered eagerly more often than steps: state cached on the env / generator object by an
            # eager reset is what a later (re)trace of reset can corrupt
            p_eager = max(eager_p, 0.3) if run.clients[ci].need_reset else eager_p
            emit(["deliver", ci, "EAGER" if rng.random() < p_eager else "JIT", act_for(ci)])
        run.on_end()
    except Violation as v:
        v.ops = ops  # type: ignore[attr-defined]
        raise
    return ops, run


def history_digest(adapter: Any, cfg: Dict[str, Any], seed: int, n_keys: int = 3, n_steps: int = 6) -> List[str]:
    """Responses of a fixed request sequence (keys and mask-legal actions drawn from a PRNG seeded by
    (seed, env, config) only) on a freshly built instance: one digest per response."""
    import jax
    import jax.numpy as jnp

    env = adapter.build(cfg)
    reset, step = jax.jit(env.reset), jax.jit(env.step)
    rng = util.sub_rng(seed, "c02xhist", adapter.name, cfg["id"])
    out: List[str] = []
    for k in range(n_keys):
        s, ts = reset(jax.random.PRNGKey(int(rng.integers(0, 2**31 - 1))))
        out.append(util.tree_digest(util.to_np((s, ts))))
        # the last key is played purposefully and for longer (completion-driving policy): transitions that only occur deep
        # into an episode - a delivery, a refill, a line clear - are part of the fixed request sequence too
        deep = k == n_keys - 1 and n_keys > 1
        for _t in range(40 if deep else n_steps):
            if int(np.asarray(ts.step_type)) == 2:
                break
            m = adapter.env_mask(util.to_np(ts.observation)) if adapter.mask_mode else None
            a = None
            if deep:
                try:
                    a = adapter.safe_policy("complete", util.to_np(s), env, rng, m if (m is None or m.any()) else None)
                except Exception:  # noqa: BLE001  (a policy that cannot cope with this state: fall back to the mask)
                    a = None
            if a is None:
                a = adapter.pick(m, rng)[0] if (m is not None and m.any()) else adapter.inspec_action(env, rng)
            s, ts = step(s, jnp.asarray(a, dtype=env.action_spec.dtype))
            out.append(util.tree_digest(util.to_np((s, ts))))
    return out


def other_history(adapter: Any, cfg_b: Dict[str, Any], seed: int) -> None:
    """A different call history in the same process: another configuration of the same environment class
    is built and used (jit and eager) before the configuration under test."""
    import jax

    history_digest(adapter, cfg_b, seed + 1, n_keys=1, n_steps=3)
    env = adapter.build(cfg_b)
    s, ts = env.reset(jax.random.PRNGKey(seed % 1000))
    env.step(s, env.action_spec.generate_value())


def xhist_after_task(task: Dict[str, Any]) -> Dict[str, Any]:
    from jsim import envs

    t0 = time.time()
    adapter = envs.get(task["env"])
    firsts = task["first_cfgs"]
    from jsim.core import construct as _construct

    for k, fc in enumerate(firsts):
        _construct(other_history, adapter, fc, task["seed"] + k)
    dg = _construct(history_digest, adapter, task["cfg"], task["seed"])
    return {"task": {"prop": "C02", "env": task["env"], "cfg": task["cfg"]["id"] + "<after>" + "+".join(f["id"] for f in firsts), "shard": task["shard"]},
            "runs": 1, "attempted": 1, "steps": len(dg), "faults": {"OTHER_HISTORY": 1}, "policies": {}, "transports": {"JIT": len(dg)},
            "probes": {}, "checks": {"history_digests": len(dg)}, "states": b"", "n_states": 0, "digests": [], "nontrivial": [], "samples": [],
            "violations": [], "det_ok": None, "wall": time.time() - t0,
            "xhist": {"env": task["env"], "cfg": task["cfg"], "first_cfgs": firsts, "role": "after", "digest": dg}}


def xhist_compare(results: List[Dict[str, Any]], seed: int) -> List[Dict[str, Any]]:
    """Engine-side history check: the responses of configuration A must not depend on whether another
    configuration B of the same class was used earlier in the same process."""
    solo = {(r["xhist"]["env"], r["xhist"]["cfg"]["id"]): r["xhist"] for r in results if r.get("xhist", {}).get("role") == "solo"}
    out = []
    for r in results:
        x = r.get("xhist")
        if not x or x["role"] != "after":
            continue
        ref = solo.get((x["env"], x["cfg"]["id"]))
        if ref is None or ref["digest"] == x["digest"]:
            continue
        k = [i for i, (p, q) in enumerate(zip(ref["digest"], x["digest"])) if p != q]
        first = k[0] if k else min(len(ref["digest"]), len(x["digest"]))
        out.append({"property": "C02", "env": x["env"], "config": x["cfg"], "seed": seed, "shard": 0, "run": 0,
                    "monitor": "history_independence", "class": "responses_depend_on_earlier_use_of_another_configuration",
                    "detail": f"response #{first} of the fixed request sequence on {x['cfg']['id']} differs between a fresh process and a process "
                              f"that had used {[f['id'] for f in x['first_cfgs']]} before",
                    "ops": {"xhist": True, "first_cfgs": x["first_cfgs"]}, "ops_unminimised": {}})
    return out


def run_task(prop: Any, task: Dict[str, Any]) -> Dict[str, Any]:
    from jsim import envs

    if task.get("kind") == "xhist_after":
        return xhist_after_task(task)
    adapter = envs.get(task["env"])
    cfg = task["cfg"]
    t0 = time.time()
    from jsim.core import construct as _construct

    xh = {"env": task["env"], "cfg": cfg, "role": "solo", "digest": _construct(history_digest, adapter, cfg, task["seed"])} if task["shard"] == 0 else None
    from jsim.core import construct

    ps = construct(PureSys, adapter, cfg)
    stats = Stats()
    digests: List[int] = []
    nontrivial: List[bool] = []
    samples: List[Any] = []
    violations: List[Dict[str, Any]] = []
    seen = set()
    n_runs = task.get("runs")
    deadline = t0 + task["wall"] if task.get("wall") else None
    i = 0
    det_ok = None
    while True:
        if n_runs is not None and i >= n_runs:
            break
        if deadline is not None and time.time() > deadline and i >= 2:
            break
        rng = util.sub_rng(task["seed"], "C02", task["env"], cfg["id"], task["shard"], i)
        f0 = sum(stats.faults.values())
        s0 = stats.steps
        try:
            ops, run = generate_and_run(ps, rng, stats, task["tier"], force_eager_only=(i == 0))
        except Violation as v:
            ops = v.ops  # type: ignore[attr-defined]
            key = (v.monitor, v.cls)
            if key not in seen and len(violations) < 6:
                seen.add(key)

                def still(cand: List[Any]) -> bool:
                    try:
                        execute(ps, {"keys": ops["keys"], "ops": cand[1:]}, Stats())
                    except Violation as v2:
                        return (v2.monitor, v2.cls) == key
                    except Exception:  # noqa: BLE001  (a shrunk candidate that is not executable is simply not kept)
                        return False
                    return False

                small = shrink([["reset"]] + ops["ops"], still, budget=40)[1:]
                detail = v.detail
                try:
                    execute(ps, {"keys": ops["keys"], "ops": small}, Stats())
                    small = ops["ops"]
                except Violation as v3:
                    detail = v3.detail
                violations.append({"property": "C02", "env": task["env"], "config": cfg, "seed": task["seed"], "shard": task["shard"],
                                   "run": i, "monitor": v.monitor, "class": v.cls, "detail": detail,
                                   "ops": {"keys": ops["keys"], "ops": small}, "ops_unminimised": ops})
            stats.probe("runs_ending_in_violation")
            i += 1
            continue
        stats.runs += 1
        h = util.crc(util.canon(ops)) | (util.crc(util.canon([util.state_digest(util.to_np(c.state)) for c in run.clients if c.state is not None])) << 32)
        digests.append(int(h))
        nontrivial.append(bool(stats.steps - s0 >= 3 and sum(stats.faults.values()) - f0 >= 1))
        if len(samples) < 2:
            samples.append({"env": task["env"], "config": cfg["id"], "keys": ops["keys"], "ops": ops["ops"][:8], "n_ops": len(ops["ops"])})
        if i == 0:
            rng2 = util.sub_rng(task["seed"], "C02", task["env"], cfg["id"], task["shard"], 0)
            try:
                ops2, _ = generate_and_run(ps, rng2, Stats(), task["tier"], force_eager_only=True)
                det_ok = util.canon(ops2) == util.canon(ops)
            except Violation:
                det_ok = None  # the violation itself is reported by the main loop
        i += 1
    return {
        "task": {"prop": "C02", "env": task["env"], "cfg": cfg["id"], "shard": task["shard"]},
        "runs": stats.runs, "attempted": i, "steps": stats.steps, "faults": stats.faults, "policies": {},
        "transports": stats.transports, "probes": stats.probes, "checks": stats.checks,
        "states": np.fromiter(stats.states, dtype=np.uint64, count=len(stats.states)).tobytes(), "n_states": len(stats.states),
        "digests": digests, "nontrivial": nontrivial, "samples": samples, "violations": violations, "det_ok": det_ok,
        "wall": time.time() - t0, "xhist": xh,
    }


def replay_xhist(v: Dict[str, Any], path: str) -> int:
    """Two fresh interpreters: A alone, and B-then-A; the response digests must agree."""
    import json
    import os
    import subprocess
    import sys

    outs = []
    for first in (None, v["ops"]["first_cfgs"]):
        code = ("import json,sys; from jsim.worker import _init_jax; _init_jax(); from jsim import envs, puresim; "
                "a=envs.get(sys.argv[1]); cfg=json.loads(sys.argv[2]); first=json.loads(sys.argv[3]); seed=int(sys.argv[4]); "
                "[puresim.other_history(a, f, seed + k) for k, f in enumerate(first or [])]; print('XD', json.dumps(puresim.history_digest(a, cfg, seed)))")
        p = subprocess.run([sys.executable, "-c", code, v["env"], json.dumps(v["config"]), json.dumps(first), str(v["seed"])],
                           capture_output=True, text=True, env=dict(os.environ), timeout=1800)
        line = [ln for ln in p.stdout.splitlines() if ln.startswith("XD ")]
        if not line:
            print(f"replay: helper interpreter failed: {p.stderr[-400:]}")
            return 2
        outs.append(json.loads(line[0][3:]))
    if outs[0] != outs[1]:
        print(f"VIOLATION property=C02 replay={path}")
        print(f"  env={v['env']} config={v['config']['id']} monitor={v['monitor']} class={v['class']}: responses differ between a fresh process and "
              f"one that used {[f['id'] for f in v['ops']['first_cfgs']]} first")
        return 1
    print(f"replay: no violation of class {v['monitor']}/{v['class']} reproduced from {path}")
    return 0


def replay(v: Dict[str, Any], path: str) -> int:
    from jsim import envs

    if isinstance(v.get("ops"), dict) and v["ops"].get("xhist"):
        return replay_xhist(v, path)
    from jsim.core import construct

    ps = construct(PureSys, envs.get(v["env"]), v["config"])
    if v.get("construction_only"):
        return 0
    try:
        execute(ps, v["ops"], Stats())
    except Violation as got:
        if (got.monitor, got.cls) == (v["monitor"], v["class"]):
            print(f"VIOLATION property=C02 replay={path}")
            print(f"  env={v['env']} config={v['config']['id']} monitor={got.monitor} class={got.cls}: {got.detail[:300]}")
            return 1
    print(f"replay: no violation of class {v['monitor']}/{v['class']} reproduced from {path}")
    return 0
