"""A second user package for the registry simulation: its entry points carry the *same class names* as jsim.fakes
(two packages that both ship a ``FakeEnvA``), so an id is only built right if the whole ``module:Class`` entry point
is honoured. Calls are recorded in ``jsim.fakes.CALLS`` like those of the first package."""
from __future__ import annotations

from jsim.fakes import _Rec


class FakeEnvA(_Rec):
    pass


class FakeEnvB(_Rec):
    pass
