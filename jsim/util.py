"""Seeds, digests, numpy conversion and comparisons. No wall clock, no hash(), no sets iterated."""
from __future__ import annotations

import hashlib
import json
import zlib
from typing import Any, Iterable, List, Tuple

import numpy as np


def crc(s: str) -> int:
    return zlib.crc32(s.encode("utf-8")) & 0xFFFFFFFF


def sub_rng(*parts: Any) -> np.random.Generator:
    """One PRNG per (seed, property, env, config, shard, ...) - every choice derives from it."""
    ints = [int(p) & 0xFFFFFFFF if isinstance(p, (int, np.integer)) else crc(str(p)) for p in parts]
    return np.random.Generator(np.random.PCG64(np.random.SeedSequence(ints)))


def to_np(tree: Any) -> Any:
    import jax

    return jax.tree_util.tree_map(lambda x: np.asarray(x), tree)


def leaves_with_path(tree: Any) -> List[Tuple[str, np.ndarray]]:
    import jax

    out = []
    for path, leaf in jax.tree_util.tree_flatten_with_path(tree)[0]:
        out.append((jax.tree_util.keystr(path), np.asarray(leaf)))
    return out


def state_digest(np_state: Any, skip_key: bool = True) -> int:
    """64-bit digest of the state leaves (minus PRNG keys): the stated measure of reach."""
    h = hashlib.sha1()
    for p, leaf in leaves_with_path(np_state):
        if skip_key and (p == ".key" or p.endswith(".key") or p == "['key']"):
            continue
        h.update(p.encode())
        h.update(str(leaf.dtype).encode())
        h.update(str(leaf.shape).encode())
        h.update(np.ascontiguousarray(leaf).tobytes())
    return int.from_bytes(h.digest()[:8], "big")


def tree_digest(tree: Any) -> str:
    h = hashlib.sha1()
    for p, leaf in leaves_with_path(tree):
        h.update(p.encode())
        h.update(str(leaf.dtype).encode())
        h.update(str(leaf.shape).encode())
        h.update(np.ascontiguousarray(leaf).tobytes())
    return h.hexdigest()


def jsonable(x: Any) -> Any:
    if isinstance(x, (np.integer,)):
        return int(x)
    if isinstance(x, (np.floating,)):
        return float(x)
    if isinstance(x, (np.bool_,)):
        return bool(x)
    if isinstance(x, np.ndarray):
        return x.tolist()
    if isinstance(x, (list, tuple)):
        return [jsonable(v) for v in x]
    if isinstance(x, dict):
        return {str(k): jsonable(v) for k, v in x.items()}
    if hasattr(x, "tolist") and hasattr(x, "dtype"):
        return np.asarray(x).tolist()
    return x


def canon(x: Any) -> str:
    return json.dumps(jsonable(x), sort_keys=True, separators=(",", ":"))


def close(a: Any, b: Any, rtol: float = 1e-5, atol: float = 1e-6) -> bool:
    a = np.asarray(a)
    b = np.asarray(b)
    if a.shape != b.shape:
        return False
    if a.dtype.kind in "fc" or b.dtype.kind in "fc":
        return bool(np.all(np.isclose(a.astype(np.float64), b.astype(np.float64), rtol=rtol, atol=atol, equal_nan=True)))
    return bool(np.array_equal(a, b))


def tree_diff(a: Any, b: Any, rtol: float = 1e-5, atol: float = 1e-6, skip: Iterable[str] = ()) -> List[str]:
    """Return list of human-readable leaf differences between two pytrees of arrays."""
    la = leaves_with_path(a)
    lb = leaves_with_path(b)
    out: List[str] = []
    if [p for p, _ in la] != [p for p, _ in lb]:
        return [f"structure differs: {[p for p, _ in la][:6]} vs {[p for p, _ in lb][:6]}"]
    for (p, x), (_, y) in zip(la, lb):
        if any(s in p for s in skip):
            continue
        if x.shape != y.shape:
            out.append(f"{p}: shape {x.shape} vs {y.shape}")
        elif not close(x, y, rtol, atol):
            idx = None
            try:
                if x.dtype.kind in "fc" or y.dtype.kind in "fc":
                    bad = ~np.isclose(x.astype(np.float64), y.astype(np.float64), rtol=rtol, atol=atol, equal_nan=True)
                else:
                    bad = x != y
                idx = tuple(int(i) for i in np.argwhere(bad)[0]) if bad.ndim else ()
                out.append(f"{p}{list(idx)}: {x[idx] if bad.ndim else x} vs {y[idx] if bad.ndim else y}")
            except Exception:  # pragma: no cover
                out.append(f"{p}: differs")
    return out
