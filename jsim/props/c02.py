"""C02 - reset/step are pure functions and commute with jit, vmap and scan."""
from __future__ import annotations

from typing import Any, Dict, List

from jsim.props.base import Prop


class C02(Prop):
    id = "C02"
    custom = True
    title = "reset/step are pure functions and commute with jit, vmap and scan"
    needs_fault = True
    rule = ("one run = 2-4 logical clients sharing one Environment object; 10-40 scheduler-drawn deliveries: single requests (EAGER or "
            "JIT), VMAP batches with decoy slots, SCAN bursts, DUPLICATE re-deliveries, REORDERed service order, DECOY calls (specs, "
            "repr, other resets), RETRACE (new jit wrappers on the same object) and CRASH_RESTART (new object, states pickled); every "
            "response is compared with a pristine reference instance, arguments are snapshotted around EAGER/JIT calls, and each "
            "client's interleaved history is compared with its solo history; distinct = distinct (ops, final states) digest; "
            "non-trivial = >= 3 responses compared and >= 1 fault fired")
    assumptions = ["float leaves are compared with rtol 1e-5 / atol 1e-6 (eager vs jit differ by 1 ulp on CVRP's penalty constant)"]
    quick_runs = 5

    def run_task(self, task: Dict[str, Any]) -> Dict[str, Any]:
        from jsim import puresim

        return puresim.run_task(self, task)

    def replay(self, v: Dict[str, Any], path: str) -> int:
        from jsim import puresim

        return puresim.replay(v, path)


PROP = C02()
