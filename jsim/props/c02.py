"""C02 - reset/step are pure functions and commute with jit, vmap and scan."""
from __future__ import annotations

from typing import Any, Dict, List

from jsim.props.base import Prop


class C02(Prop):
    id = "C02"
    custom = True
    title = "reset/step are pure functions and commute with jit, vmap and scan"
    needs_fault = True
    rule = ("one run = 2-4 logical clients sharing one Environment object; 10-40 scheduler-drawn deliveries: single requests (EAGER or "
            "JIT), VMAP batches with decoy slots, SCAN bursts, DUPLICATE re-deliveries, REORDERed service order, DECOY calls (specs, "
            "repr, other resets), RETRACE (new jit wrappers on the same object) and CRASH_RESTART (new object, states pickled); every "
            "response is compared with a pristine reference instance, arguments are snapshotted around EAGER/JIT calls, and each "
            "client's interleaved history is compared with its solo history; distinct = distinct (ops, final states) digest; "
            "non-trivial = >= 3 responses compared and >= 1 fault fired. In addition, per env, a fixed request sequence on one configuration is "
            "answered in a fresh process and in a process that used another configuration of the same class before (OTHER_HISTORY); the "
            "response digests must agree")
    assumptions = ["float leaves are compared with rtol 1e-5 / atol 1e-6 (eager vs jit differ by 1 ulp on CVRP's penalty constant)"]
    quick_runs = 5

    def select_configs(self, adapter: Any, tier: str) -> List[Dict[str, Any]]:
        cfgs = adapter.configs()
        if tier == "quick":
            # quick configurations plus those flagged for C02 (generators that hand out one cached instance)
            return [c for c in cfgs if c.get("quick") or c.get("c02")]
        return cfgs

    def expand(self, task: Dict[str, Any]) -> List[Dict[str, Any]]:
        """Besides the multi-client simulation of (env, cfg) add, once per env, an OTHER_HISTORY task: the
        second configuration is exercised in a process that used the first configuration before."""
        from jsim import envs

        out = [task]
        cfgs = self.select_configs(envs.get(task["env"]), task["tier"])
        if task["shard"] == 0 and len(cfgs) >= 2:
            idx = [c["id"] for c in cfgs].index(task["cfg"]["id"])
            menu = [c for c in envs.get(task["env"]).configs() if not c.get("clock")]
            if idx == 0 and len(menu) >= 2:
                # the default configuration after every other configuration of the menu was built and used in the same
                # process (menus contain same-shape, different-parameter variants: memo keys tend to collide there)
                t = dict(task)
                t["kind"] = "xhist_after"
                t["first_cfgs"] = [c for c in menu if c["id"] != task["cfg"]["id"]][:6]
                out.append(t)
            elif idx >= 1 and not task["cfg"].get("clock"):
                t = dict(task)
                t["kind"] = "xhist_after"
                t["first_cfgs"] = [cfgs[idx - 1]] if (task["tier"] != "quick" or idx == 1) else [cfgs[0], cfgs[idx - 1]]
                out.append(t)
        return out

    def post(self, results: List[Dict[str, Any]], seed: int) -> List[Dict[str, Any]]:
        from jsim import puresim

        return puresim.xhist_compare(results, seed)

    def run_task(self, task: Dict[str, Any]) -> Dict[str, Any]:
        from jsim import puresim

        return puresim.run_task(self, task)

    def replay(self, v: Dict[str, Any], path: str) -> int:
        from jsim import puresim

        return puresim.replay(v, path)


PROP = C02()
