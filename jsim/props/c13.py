"""C13 - AutoResetWrapper resets exactly when an episode ends, with a fresh instance."""
from __future__ import annotations

from typing import Any, Dict, List

from jsim import envs
from jsim.props.base import Prop


def wrapper_configs(adapter: Any, tier: str) -> List[Dict[str, Any]]:
    cfgs = adapter.configs()
    clock = [c for c in cfgs if c.get("clock") and c.get("tl") in ((3,) if tier == "quick" else (2, 3, 7))]
    quick = [c for c in cfgs if c.get("quick") and not c.get("clock")]
    extra = []
    if adapter.name == "Snake":
        # "every environment" includes user-wrapped ones: Snake behind an observation-mirroring Wrapper
        m = dict(clock[0])
        m["id"], m["mirror"] = m["id"] + "+mirror", True
        extra = [m]
        # a tiny board on which clients play to win: episodes that end by completion (the whole board covered), several per run
        win = dict([c for c in cfgs if c["id"] == "r4c3"][0])
        win["id"], win["drive"] = "r4c3+win", True
        extra.append(win)
    if adapter.name == "RobotWarehouse":
        # a small warehouse in which the clients work (fetch - deliver - put back), for many steps: deliveries, i.e. steps that
        # draw from the state's key, happen inside batches and scans and at different times in different batch elements
        work = dict([c for c in cfgs if c["id"] == "s1c3h3a3r1q4"][0])  # more shelves than queue slots: the new request is a real draw
        work["id"], work["drive"], work["drive_segments"] = work["id"] + "+work", True, (50, 90)
        extra.append(work)
    if tier == "quick":
        # one configuration in which episodes end often: tiny time limit, else the small quick config; plus, for the
        # multi-agent environments, a single-agent configuration (state leaves with an axis of size one next to the batch axis)
        single = [c for c in cfgs if c.get("a") == 1 and not c.get("clock")][:1]
        return (clock[:1] or quick[1:2] or quick[:1]) + extra + single
    return clock + [c for c in cfgs if not c.get("clock")] + extra


class C13(Prop):
    id = "C13"
    custom = True
    title = "AutoResetWrapper resets exactly when an episode ends, with a fresh instance"
    needs_fault = True
    stubs = ["agents/policies (simulated clients)"]
    rule = ("one run = B clients served by one AutoResetWrapper(env, next_obs_in_extras) over 6-24 scheduler-drawn segments "
            "(SOLO / JIT / EAGER / VMAP / SCAN transports, per-step kill sets forcing episode ends: illegal action, completion, "
            "tiny time limits); every wrapper output is compared with env.step / env.reset computed side by side; distinct = distinct "
            "(ops, final states) digest; non-trivial = >= 3 steps and >= 1 automatic reset happened and was checked")
    assumptions = ["the reset key is accepted when it is any of split(key,2)[i], split(key,3)[i], fold_in(key,0/1) of the terminal state's key"]
    quick_runs = 6  # per shard; the quick tier runs two shards per configuration (one per next_obs_in_extras setting)

    def select_configs(self, adapter: Any, tier: str) -> List[Dict[str, Any]]:
        return wrapper_configs(adapter, tier)

    def shards(self, adapter, cfg, tier):
        return 2

    def run_task(self, task: Dict[str, Any]) -> Dict[str, Any]:
        from jsim import wrapsim

        task = dict(task)
        task.setdefault("B", [2, 3][task["shard"] % 2])
        task.setdefault("scan_len", 3)
        return wrapsim.run_task(self, task)

    def replay(self, v: Dict[str, Any], path: str) -> int:
        from jsim import wrapsim

        return wrapsim.replay(self, v, path)


PROP = C13()
