"""C07 - game and grid worlds stay physically consistent under any actions."""
from __future__ import annotations

from typing import Any, List

from jsim.core import Ctx, Monitor, Rec, is_last
from jsim.generic import Plan, swarm_weights
from jsim.props.base import Prop

WORLDS = ["Maze", "Cleaner", "PacMan", "Sokoban", "Snake", "Tetris", "Game2048", "Minesweeper", "Connector", "LevelBasedForaging",
          "RobotWarehouse"]


class Physics(Monitor):
    name = "physics"

    def on_reset(self, ctx: Ctx, rec: Rec) -> None:
        dev = ctx.adapter.physical(None, None, rec.state, rec.ts, ctx.env, ctx.cfg)
        ctx.stats.check("states_checked")
        if dev is not None:
            ctx.fail(self.name, dev[0], f"reset state: {dev[1]}")

    def on_step(self, ctx: Ctx, rec: Rec) -> None:
        if rec.post_terminal or is_last(rec.ts):
            return  # only states from which the episode continues
        dev = ctx.adapter.physical(rec.prev_state, rec.action, rec.state, rec.ts, ctx.env, ctx.cfg)
        ctx.stats.check("states_checked")
        if dev is not None:
            ctx.fail(self.name, dev[0], f"t={rec.t} after action {rec.action}: {dev[1]}")


class C07(Prop):
    id = "C07"
    title = "Game and grid worlds stay physically consistent under any actions"
    rule = ("one run = one episode under arbitrary in-spec actions (uniform in-spec, illegal-biased, legal, collide, survive) with "
            "ILLEGAL injections; the physical-consistency and conservation invariants are evaluated on the reset state and on every "
            "state whose timestep is not LAST; distinct = distinct trace digest; non-trivial = >= 3 steps")
    quick_runs = 30

    def env_names(self) -> List[str]:
        return WORLDS

    def monitors(self, adapter: Any) -> List[Monitor]:
        return [Physics()]

    def plan(self, rng, adapter, env, cfg) -> Plan:
        w = swarm_weights(rng, ["UNIFORM_INSPEC", "ILLEGAL_BIASED", "LEGAL_UNIFORM", "MASK_UNIFORM", "COLLIDE", "SURVIVE", "COMPLETE"])
        return Plan(w, illegal_rate=float(rng.choice([0.0, 0.1, 0.3])), max_steps=min(adapter.max_steps(env, cfg), 250),
                    sticky=bool(rng.random() < 0.4))


PROP = C07()
