"""C08 - rewards add up to the documented objective; dense and sparse agree."""
from __future__ import annotations

from typing import Any, List

import numpy as np

from jsim import util
from jsim.core import Ctx, Monitor, Rec, Sys, is_last
from jsim.generic import Plan, swarm_weights
from jsim.props.base import Prop

LISTED = ["TSP", "CVRP", "Knapsack", "BinPack", "FlatPack", "JobShop", "GraphColoring", "Game2048", "Snake", "Cleaner", "Minesweeper",
          "SlidingTilePuzzle", "LevelBasedForaging", "MultiCVRP"]


class Accounting(Monitor):
    name = "return_vs_objective"

    def on_reset(self, ctx: Ctx, rec: Rec) -> None:
        ctx.scratch["legal_play"] = True

    def on_step(self, ctx: Ctx, rec: Rec) -> None:
        if rec.post_terminal:
            return
        ad = ctx.adapter
        b = ad.legal_bounds(rec.prev_state, ctx.env)
        mask = b[0] if b is not None else ad.env_mask(rec.prev_ts.observation)
        if mask is not None and not ad.action_in_mask(rec.action, mask):
            ctx.scratch["legal_play"] = False

    def on_end(self, ctx: Ctx) -> None:
        ad = ctx.adapter
        hist = ctx.history
        if len(hist) < 2 or not is_last(hist[-1].ts) and not ad.objective_without_end:
            ctx.stats.probe("run_not_terminated")
            return
        if not ctx.scratch.get("legal_play"):
            ctx.stats.probe("run_with_illegal_action_not_judged")
            return
        steps = [r for r in hist[1:] if not r.post_terminal]
        ret = float(np.sum([np.asarray(r.ts.reward, dtype=np.float64) for r in steps], axis=0).sum()) if ad.sum_agents else \
            np.sum([np.asarray(r.ts.reward, dtype=np.float64) for r in steps], axis=0)
        if ad.has_objective:
            want = ad.objective(hist, ctx.env, ctx.cfg)
            if want is None:
                ctx.stats.probe("objective_undefined_for_this_ending")
            else:
                ctx.stats.check("returns_compared")
                w = np.asarray(want, dtype=np.float64)
                tol = 1e-4 * max(1.0, float(np.max(np.abs(w)))) + 1e-5 * len(steps)
                if np.shape(ret) != np.shape(w) or np.any(np.abs(np.asarray(ret) - w) > tol):
                    ctx.fail(self.name, "return_differs_from_objective", f"sum of rewards {np.asarray(ret).tolist()} over {len(steps)} steps vs "
                             f"objective recomputed from the final state {w.tolist()}")
        twin_cfg = ad.sparse_twin(ctx.cfg)
        if twin_cfg is not None and is_last(hist[-1].ts):
            if not ad.twin_comparable(hist, ctx.env, ctx.cfg):
                ctx.stats.probe("twin_not_comparable_ending")
                return
            twins = ctx.sys.__dict__.setdefault("_twins", {})
            if twin_cfg["id"] not in twins:
                twins[twin_cfg["id"]] = Sys(ad, twin_cfg)
            tw = twins[twin_cfg["id"]]
            key = ctx.scratch["reset_key"]
            js, jts = tw.reset(key)
            s0 = util.to_np(js)
            d = util.tree_diff(s0, hist[0].state, skip=())
            if d:
                ctx.fail("dense_vs_sparse", "twin_reset_differs", f"same key, other reward fn: reset states differ: {d[:3]}")
            ret2 = 0.0
            for r in steps:
                js, jts = tw.step(js, r.action)
                ret2 = ret2 + np.asarray(util.to_np(jts.reward), dtype=np.float64)
            ret2 = float(np.sum(ret2)) if ad.sum_agents else ret2
            ctx.stats.check("dense_sparse_pairs")
            tol = 1e-4 * max(1.0, float(np.max(np.abs(ret2)))) + 1e-5 * len(steps)
            if np.any(np.abs(np.asarray(ret) - np.asarray(ret2)) > tol):
                ctx.fail("dense_vs_sparse", "dense_sparse_returns_differ", f"same key and legal action trace: return {np.asarray(ret).tolist()} under "
                         f"{ctx.cfg['id']} vs {np.asarray(ret2).tolist()} under {twin_cfg['id']}")


class KeyNote(Monitor):
    name = "keynote"

    def on_reset(self, ctx: Ctx, rec: Rec) -> None:
        pass


class C08(Prop):
    id = "C08"
    title = "Rewards add up to the documented objective; dense and sparse agree"
    rule = ("one run = one episode of legal play run to termination; afterwards the sum of rewards is compared with the documented "
            "objective recomputed in float64 from the final state, and the recorded action trace is replayed on the same key under the "
            "other (sparse/dense) reward function; distinct = distinct trace digest; non-trivial = >= 3 steps and the episode terminated")
    quick_runs = 30

    def env_names(self) -> List[str]:
        return LISTED

    def monitors(self, adapter: Any) -> List[Monitor]:
        return [Accounting()]

    def plan(self, rng, adapter, env, cfg) -> Plan:
        w = swarm_weights(rng, ["LEGAL_UNIFORM", "LEGAL_FIRST", "LEGAL_LAST", "COMPLETE", "MASK_UNIFORM", "SURVIVE"])
        return Plan(w, illegal_rate=0.0, max_steps=adapter.max_steps(env, cfg) + 5, sticky=bool(rng.random() < 0.5))


PROP = C08()
