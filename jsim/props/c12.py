"""C12 - observations are faithful views of the state."""
from __future__ import annotations

from typing import Any, List

import numpy as np

from jsim.core import Ctx, Monitor, Rec
from jsim.generic import Plan, swarm_weights
from jsim.props.base import Prop


class Observer(Monitor):
    name = "observer"

    def _check(self, ctx: Ctx, rec: Rec, where: str) -> None:
        dev = ctx.adapter.observe(rec.state, rec.ts.observation, ctx.env, ctx.cfg)
        ctx.stats.check("observations_recomputed")
        if dev is not None:
            ctx.fail(self.name, dev[0], f"{where}: {dev[1]}")
        # the action mask is an observation field too. Where the state carries no mask of its own to copy from, the
        # documented function of the state is the rule statement itself (the same bounds C04 judges the mask by)
        ad = ctx.adapter
        if ad.mask_mode and int(rec.ts.step_type) != 2 and getattr(rec.state, "action_mask", None) is None:
            mask = ad.env_mask(rec.ts.observation)
            b = ad.legal_bounds(rec.state, ctx.env)
            if mask is not None and b is not None and b[0].shape == mask.shape:
                wrong = (b[0] & ~mask) | (mask & ~b[1])
                j = ad.judged(rec.state, ctx.env)
                if j is not None:
                    wrong &= j
                ctx.stats.check("mask_fields_recomputed_from_rules")
                if wrong.any():
                    i = [int(x) for x in np.argwhere(wrong)[0]]
                    ctx.fail(self.name, "action_mask", f"{where}: observation.action_mask{i} = {bool(mask[tuple(i)])} is not the documented "
                             f"function of the state; {ad.describe(rec.state, ctx.env, tuple(i))}")

    def on_reset(self, ctx: Ctx, rec: Rec) -> None:
        self._check(ctx, rec, "reset")

    def on_step(self, ctx: Ctx, rec: Rec) -> None:
        if not rec.post_terminal:
            self._check(ctx, rec, f"t={rec.t}")


class C12(Prop):
    id = "C12"
    title = "Observations are faithful views of the state"
    rule = ("one run = one episode under a seeded policy mix with ILLEGAL injections; after reset and every step (including the "
            "terminal one) an independent NumPy observer recomputes every observation field from the state returned by the same "
            "call; distinct = distinct trace digest; non-trivial = >= 3 steps")
    quick_runs = 30

    def monitors(self, adapter: Any) -> List[Monitor]:
        return [Observer()]

    def plan(self, rng, adapter, env, cfg) -> Plan:
        w = swarm_weights(rng, ["LEGAL_UNIFORM", "MASK_UNIFORM", "UNIFORM_INSPEC", "COMPLETE", "SURVIVE", "COLLIDE", "LEGAL_FIRST"])
        return Plan(w, illegal_rate=float(rng.choice([0.0, 0.05])), max_steps=min(adapter.max_steps(env, cfg), 250),
                    sticky=bool(rng.random() < 0.4))


PROP = C12()
