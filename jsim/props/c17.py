"""C17 - permutation puzzles obey their group laws and stay solvable (history-quantified part)."""
from __future__ import annotations

from typing import Any, Dict, List

from jsim.props.base import Prop


class C17(Prop):
    id = "C17"
    custom = True
    title = "Permutation puzzles obey their group laws and stay solvable"
    rule = ("one run = reset(key) + a random move word (3-30 cube moves on sizes 2..7, each played on the real cube and on a labelled "
            "cube whose stickers are pairwise distinct; 3-60 tile moves on grids 2..5) compared move by move with a geometric "
            "reference model, 0-3 group-law probes (half = two quarters, four quarters = identity, cw/acw cancel, opposite slides "
            "cancel) and the inverse word; the scramble used by reset is recorded at the generator's public seam and replayed in the "
            "model; distinct = distinct op digest; non-trivial = >= 3 moves compared")
    assumptions = ["exhaustive enumeration of the 2x2/3x3 sliding state spaces and of all move pairs is not done (that is model checking)"]
    stubs = ["agents (random move words)", "generator.generate_actions_for_scramble wrapped by a recorder (pass-through)"]
    quick_runs = 25

    def env_names(self) -> List[str]:
        return ["RubiksCube"]

    def select_configs(self, adapter: Any, tier: str) -> List[Dict[str, Any]]:
        cubes = [{"id": f"cube{n}s{s}", "puzzle": "cube", "n": n, "scr": s} for n, s in
                 ([(2, 5), (3, 100), (4, 0), (5, 7), (6, 3), (7, 20)] if tier == "quick" else
                  [(n, s) for n in range(2, 8) for s in (0, 3, 100)])]
        tiles = [{"id": f"tile{g}m{m}", "puzzle": "tile", "g": g, "mv": m} for g, m in
                 ([(2, 5), (3, 20), (4, 0), (5, 200)] if tier == "quick" else [(g, m) for g in range(2, 6) for m in (0, 3, 200)])]
        return cubes + tiles

    def run_task(self, task: Dict[str, Any]) -> Dict[str, Any]:
        from jsim import permsim

        return permsim.run_task(self, task)

    def replay(self, v: Dict[str, Any], path: str) -> int:
        from jsim import permsim

        return permsim.replay(v, path)


PROP = C17()
