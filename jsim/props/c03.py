"""C03 - FIRST, MID*, LAST protocol with sane reward and discount (incl. post-terminal steps)."""
from __future__ import annotations

from typing import Any, List

import numpy as np

from jsim.core import Ctx, Monitor, Rec
from jsim.generic import Plan, swarm_weights
from jsim.props.base import Prop


class ProtocolMonitor(Monitor):
    name = "protocol"

    def on_reset(self, ctx: Ctx, rec: Rec) -> None:
        ts, env = rec.ts, ctx.env
        if int(ts.step_type) != 0:
            ctx.fail(self.name, "reset_not_first", f"reset returned step_type {int(ts.step_type)}")
        r, d = np.asarray(ts.reward), np.asarray(ts.discount)
        rs, ds = env.reward_spec, env.discount_spec
        if tuple(r.shape) != tuple(rs.shape) or np.dtype(r.dtype) != np.dtype(rs.dtype):
            ctx.fail(self.name, "reset_reward_shape", f"reset reward {r.shape}/{r.dtype} vs spec {tuple(rs.shape)}/{np.dtype(rs.dtype)}")
        if tuple(d.shape) != tuple(ds.shape) or np.dtype(d.dtype) != np.dtype(ds.dtype):
            ctx.fail(self.name, "reset_discount_shape", f"reset discount {d.shape}/{d.dtype} vs spec {tuple(ds.shape)}/{np.dtype(ds.dtype)}")
        if np.any(r != 0):
            ctx.fail(self.name, "reset_reward_nonzero", f"reset reward {r.tolist()}")
        if np.any(d != 1):
            ctx.fail(self.name, "reset_discount_not_one", f"reset discount {d.tolist()}")

    def on_step(self, ctx: Ctx, rec: Rec) -> None:
        ts = rec.ts
        st = int(ts.step_type)
        tag = " (post-terminal)" if rec.post_terminal else ""
        if st not in (1, 2):
            ctx.fail(self.name, "step_returned_first", f"step {rec.t}{tag} returned step_type {st}")
        d = np.asarray(ts.discount).astype(np.float64)
        r = np.asarray(ts.reward).astype(np.float64)
        if not np.all(np.isfinite(r)):
            ctx.fail(self.name, "reward_not_finite", f"step {rec.t}{tag} reward {r.tolist()}")
        if np.any(d < 0) or np.any(d > 1) or not np.all(np.isfinite(d)):
            ctx.fail(self.name, "discount_out_of_range", f"step {rec.t}{tag} discount {d.tolist()}")
        if st == 1 and np.all(d == 0):
            ctx.fail(self.name, "mid_with_zero_discount", f"step {rec.t}{tag} MID with discount {d.tolist()}")
        if st == 2:
            ctx.stats.probe("last_seen" + ("_post_terminal" if rec.post_terminal else ""))
            if np.any(d != 0):
                ok = False
                if ctx.adapter.name == "LevelBasedForaging":
                    tl = ctx.adapter.time_limit(ctx.env, ctx.cfg)
                    sc = int(np.asarray(rec.state.step_count))
                    all_eaten = bool(np.all(np.asarray(rec.state.food_items.eaten)))
                    if sc >= tl and not all_eaten:
                        ok = True
                        ctx.stats.probe("lbf_truncation_discount_one")
                if not ok:
                    ctx.fail(self.name, "last_with_nonzero_discount", f"step {rec.t}{tag} LAST with discount {d.tolist()}")
        ctx.stats.check("step_protocol")


class C03(Prop):
    id = "C03"
    title = "Episodes follow the FIRST, MID*, LAST protocol with sane reward and discount"
    rule = ("one run = one episode plus 0-5 POST_TERMINAL steps, policies and ILLEGAL injections drawn per run; distinct = "
            "distinct trace digest; non-trivial = >= 3 steps and a LAST was reached (so the LAST rules and, when enabled, "
            "post-terminal rules were evaluated)")
    quick_runs = 30

    def monitors(self, adapter: Any) -> List[Monitor]:
        return [ProtocolMonitor()]

    def plan(self, rng, adapter, env, cfg) -> Plan:
        w = swarm_weights(rng, ["LEGAL_UNIFORM", "MASK_UNIFORM", "UNIFORM_INSPEC", "ILLEGAL_BIASED", "SURVIVE", "COMPLETE"])
        ill = float(rng.choice([0.0, 0.05, 0.125, 0.3]))
        return Plan(w, illegal_rate=ill, post_terminal=int(rng.integers(0, 6)), max_steps=adapter.max_steps(env, cfg),
                    sticky=bool(rng.random() < 0.5))


PROP = C03()
