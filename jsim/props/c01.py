"""C01 - everything an environment emits conforms to the specs it declares."""
from __future__ import annotations

from typing import Any, List

import numpy as np

from jsim import util
from jsim.core import Ctx, Monitor, Rec
from jsim.generic import Plan, swarm_weights
from jsim.props.base import Prop


def _spec_leaves(spec: Any, prefix: str = "") -> List[Any]:
    """Flatten a (possibly nested) jumanji Spec into (path, leaf_spec)."""
    from jumanji import specs

    if isinstance(spec, specs.Array):
        return [(prefix, spec)]
    out = []
    for k in sorted(spec._specs):  # nested Spec keeps its children in _specs
        out.extend(_spec_leaves(spec._specs[k], f"{prefix}.{k}"))
    return out


def _value_leaves(val: Any, spec: Any, prefix: str = "") -> List[Any]:
    from jumanji import specs

    if isinstance(spec, specs.Array):
        return [(prefix, val)]
    out = []
    for k in sorted(spec._specs):
        if isinstance(val, dict):
            child = val[k]
        else:
            child = getattr(val, k)
        out.extend(_value_leaves(child, spec._specs[k], f"{prefix}.{k}"))
    return out


class SpecMonitor(Monitor):
    name = "spec_conformance"

    def _check(self, ctx: Ctx, rec: Rec, where: str) -> None:
        env = ctx.env
        ts = rec.ts
        for what, spec, val in (("observation", env.observation_spec, ts.observation),
                                ("reward", env.reward_spec, ts.reward),
                                ("discount", env.discount_spec, ts.discount)):
            # (1) independent structural comparison: same fields, shape and dtype per leaf
            try:
                sl = _spec_leaves(spec, what)
                vl = _value_leaves(val, spec, what)
            except (AttributeError, KeyError) as e:
                ctx.fail(self.name, f"{what}_structure", f"{where}: {what} lacks a field announced by the spec: {e!r}")
            if what == "observation" and hasattr(val, "_fields") and hasattr(spec, "_specs"):
                if sorted(val._fields) != sorted(spec._specs):
                    ctx.fail(self.name, "observation_structure", f"{where}: fields {sorted(val._fields)} vs spec {sorted(spec._specs)}")
            for (p, s), (_, v) in zip(sl, vl):
                v = np.asarray(v)
                if tuple(v.shape) != tuple(s.shape):
                    ctx.fail(self.name, f"{what}_shape", f"{where}: {p} shape {v.shape} vs spec {tuple(s.shape)}")
                if np.dtype(v.dtype) != np.dtype(s.dtype):
                    ctx.fail(self.name, f"{what}_dtype", f"{where}: {p} dtype {v.dtype} vs spec {np.dtype(s.dtype)}")
                # (2) independent bounds comparison
                lo = getattr(s, "minimum", None)
                hi = getattr(s, "maximum", None)
                if lo is not None and hi is not None and v.size:
                    if np.any(v < np.asarray(lo)) or np.any(v > np.asarray(hi)):
                        bad = np.argwhere((v < np.asarray(lo)) | (v > np.asarray(hi)))[0]
                        lo_b = np.broadcast_to(np.asarray(lo), v.shape)[tuple(bad)]
                        hi_b = np.broadcast_to(np.asarray(hi), v.shape)[tuple(bad)]
                        ctx.fail(self.name, f"{what}_bounds:{p}", f"{where}: {p}{bad.tolist()} = {v[tuple(bad)] if v.ndim else v} "
                                 f"outside [{lo_b}, {hi_b}]")
            # (3) the env's own validate is the judge as well
            try:
                spec.validate(val)
            except Exception as e:  # noqa: BLE001
                ctx.fail(self.name, f"{what}_validate", f"{where}: {what}_spec.validate raised {type(e).__name__}: {str(e)[:200]}")
            ctx.stats.check(f"validated_{what}")

    def on_reset(self, ctx: Ctx, rec: Rec) -> None:
        self._check(ctx, rec, "reset")
        # once per (env, config): generate_value is a member of the action spec and accepted by step
        if not ctx.scratch.get("gv_done_global"):
            env = ctx.env
            gv = env.action_spec.generate_value()
            try:
                env.action_spec.validate(gv)
            except Exception as e:  # noqa: BLE001
                ctx.fail(self.name, "generate_value_not_member", f"action_spec.validate(generate_value()) raised {e!r}")
            try:
                s2, ts2 = ctx.sys.step_fn(rec.jstate, gv)
            except Exception as e:  # noqa: BLE001
                ctx.fail(self.name, "generate_value_rejected_by_step", f"step(reset_state, generate_value()) raised {type(e).__name__}: {str(e)[:200]}")
            r2 = Rec()
            r2.state, r2.ts = util.to_np((s2, ts2))
            self._check(ctx, r2, "step(reset_state, generate_value())")
            ctx.stats.check("generate_value")

    def on_step(self, ctx: Ctx, rec: Rec) -> None:
        if rec.post_terminal:
            return
        last = int(rec.ts.step_type) == 2
        self._check(ctx, rec, f"step {rec.t}{' (LAST)' if last else ''}")
        if last:
            ctx.stats.probe("terminal_step_validated")
            tl = ctx.adapter.time_limit(ctx.env, ctx.cfg)
            if tl is not None and rec.t >= tl:
                ctx.stats.probe("time_limit_boundary_validated")


class C01(Prop):
    id = "C01"
    title = "Everything an environment emits conforms to the specs it declares"
    rule = ("one run = reset(key) + one episode driven by a seeded mix of policies (legal, mask-following, uniform in-spec, "
            "illegal-biased, survive, complete) with ILLEGAL injections; distinct = distinct trace digest (ops + every "
            "response); non-trivial = >= 3 steps executed and every step validated against the specs")
    quick_runs = 30

    def monitors(self, adapter: Any) -> List[Monitor]:
        return [SpecMonitor()]

    def plan(self, rng, adapter, env, cfg) -> Plan:
        w = swarm_weights(rng, ["LEGAL_UNIFORM", "MASK_UNIFORM", "UNIFORM_INSPEC", "ILLEGAL_BIASED", "SURVIVE", "COMPLETE", "LEGAL_FIRST"])
        ill = float(rng.choice([0.0, 0.05, 0.125]))
        return Plan(w, illegal_rate=ill, max_steps=adapter.max_steps(env, cfg), sticky=bool(rng.random() < 0.5))


PROP = C01()
