"""Property modules. Each exposes PROP (an instance of props.base.Prop)."""
import importlib

IDS = ["C01", "C02", "C03", "C04", "C05", "C06", "C07", "C08", "C09", "C11", "C12", "C13", "C14", "C15", "C17", "C18"]


def get(pid: str):
    return importlib.import_module(f"jsim.props.{pid.lower()}").PROP
