"""C09 - transitions follow the published rules (lock-step agreement with reference models)."""
from __future__ import annotations

from typing import Any, List

from jsim.core import Ctx, Monitor, Rec
from jsim.generic import Plan, swarm_weights
from jsim.props.base import Prop

MODELLED = ["Game2048", "Minesweeper", "Sudoku", "SlidingTilePuzzle", "Tetris", "Snake", "Sokoban", "Maze", "Cleaner", "Connector",
            "LevelBasedForaging", "Knapsack", "TSP", "CVRP", "JobShop", "GraphColoring", "FlatPack"]


class LockStep(Monitor):
    name = "reference_model"

    def on_step(self, ctx: Ctx, rec: Rec) -> None:
        if rec.post_terminal:
            return
        dev = ctx.adapter.model_step(rec.prev_state, rec.action, rec.state, rec.ts, ctx.env, ctx.cfg)
        ctx.stats.check("transitions_compared")
        if dev is not None:
            ctx.fail(self.name, dev[0], f"t={rec.t} action {rec.action}: {dev[1]}")


class C09(Prop):
    id = "C09"
    title = "Transitions follow the published rules of each game (reference-model agreement)"
    rule = ("one run = one episode (random, mask-respecting, adversarial, collision-seeking policies, ILLEGAL injections); every "
            "(state, action) pair is replayed in an independent pure-NumPy model of the rules and successor fields, reward and "
            "termination are compared; random draws are judged by set membership; distinct = distinct trace digest; non-trivial = "
            ">= 3 transitions compared")
    quick_runs = 30

    def env_names(self) -> List[str]:
        return MODELLED

    def monitors(self, adapter: Any) -> List[Monitor]:
        return [LockStep()]

    def plan(self, rng, adapter, env, cfg) -> Plan:
        w = swarm_weights(rng, ["LEGAL_UNIFORM", "MASK_UNIFORM", "UNIFORM_INSPEC", "ILLEGAL_BIASED", "COLLIDE", "COMPLETE", "SURVIVE", "LEGAL_FIRST"])
        return Plan(w, illegal_rate=float(rng.choice([0.0, 0.05, 0.2])), max_steps=min(adapter.max_steps(env, cfg), 250),
                    sticky=bool(rng.random() < 0.4))


PROP = C09()
