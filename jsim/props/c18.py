"""C18 - the registry maps each id to one reproducible configuration (stateful part)."""
from __future__ import annotations

from typing import Any, Dict, List

from jsim.props.base import Prop


class C18(Prop):
    id = "C18"
    custom = True
    title = "The registry maps each id to one reproducible configuration"
    needs_fault = True
    rule = ("one run = 6-30 ops register / make / parse on the process-global registry (snapshotted and restored around the run) with "
            "fresh, duplicate (DUP_REGISTER, also written with a leading zero), malformed and unknown ids (BAD_ID) and caller "
            "overrides, checked op by op against a dict model with recording fake entry points; plus one task that makes all shipped "
            "ids twice (Sokoban through the DOWNLOAD stub) and compares specs and a 4-step shared run; distinct = distinct op digest; "
            "non-trivial = >= 3 ops and >= 1 refused operation")
    stubs = ["entry points (recording fake classes)", "hf_hub_download (in-process dataset stub built from the repo's own trivial levels)"]
    assumptions = ["well-formed generated ids use names over [A-Za-z0-9_:.-] and canonical decimal versions (no leading zeros)"]
    quick_runs = 150

    def env_names(self) -> List[str]:
        return ["Snake"]

    def select_configs(self, adapter: Any, tier: str) -> List[Dict[str, Any]]:
        return [{"id": "ops"}, {"id": "shipped"}, {"id": "shipped_rev"}]  # shipped ids in ascending and (own process) descending order

    def shards(self, adapter, cfg, tier):
        return 1 if (tier == "quick" or cfg["id"].startswith("shipped")) else 8

    def cost(self, adapter, cfg):
        return 5.0 if cfg["id"].startswith("shipped") else 1.0

    def post(self, results: List[Dict[str, Any]], seed: int) -> List[Dict[str, Any]]:
        from jsim import regsim

        return regsim.order_compare(results, seed)

    def run_task(self, task: Dict[str, Any]) -> Dict[str, Any]:
        from jsim import regsim

        return regsim.run_task(self, task)

    def replay(self, v: Dict[str, Any], path: str) -> int:
        from jsim import regsim

        return regsim.replay(v, path)


PROP = C18()
