"""C05 - illegal actions have only their documented effect (fault enumeration at visited states)."""
from __future__ import annotations

from typing import Any, List

import numpy as np

from jsim.core import Ctx, Monitor, Rec, is_last
from jsim.generic import Plan, swarm_weights
from jsim.props.base import Prop


class InvalidEffect(Monitor):
    name = "invalid_effect"

    def _check(self, ctx: Ctx, rec: Rec) -> None:
        if is_last(rec.ts):
            return
        ad, env = ctx.adapter, ctx.env
        ill = ad.illegal_actions(rec.state, env, ctx.det_rng(rec.state, "c05"))
        if ill is None:
            return
        actions, which, complete = ill
        if len(actions) == 0:
            ctx.stats.probe("state_without_illegal_action")
            return
        # expensive environments fork on every k-th state *that has an illegal action* (states without one cost nothing)
        n = ctx.scratch.get("visits", 0)
        ctx.scratch["visits"] = n + 1
        if n % ad.fork_every:
            return
        try:
            ns, nts = ctx.sys.fork(rec.jstate, np.asarray(actions))
        except Exception as e:  # noqa: BLE001  (every action is inside the action spec: step must answer it)
            ctx.fail(self.name, "forked_step_raised:" + type(e).__name__, f"t={rec.t}: vmap(step) over the illegal actions raised {type(e).__name__}: {str(e)[:200]}")
        ctx.stats.inc(ctx.stats.faults, "ILLEGAL_ENUM", len(actions))
        ctx.stats.probe("illegal_set_enumerated_completely" if complete else "illegal_set_sampled")
        import jax

        for k in range(len(actions)):
            s_k = jax.tree_util.tree_map(lambda x: x[k], ns)
            ts_k = jax.tree_util.tree_map(lambda x: x[k], nts)
            dev = ad.invalid_effect(rec.state, actions[k], which[k], s_k, ts_k, env, ctx.cfg)
            ctx.stats.check("illegal_actions_judged")
            if dev is not None:
                ctx.fail(self.name, dev[0], f"t={rec.t}: illegal action {np.asarray(actions[k]).tolist()}: {dev[1]}")

    def on_reset(self, ctx: Ctx, rec: Rec) -> None:
        self._check(ctx, rec)

    def on_step(self, ctx: Ctx, rec: Rec) -> None:
        if not rec.post_terminal:
            self._check(ctx, rec)
            if rec.fault in ("ILLEGAL",) and ctx.adapter.has_invalid_effect and not is_last(rec.prev_ts):
                pass  # the injected action itself is covered by the enumeration at the previous state


class C05(Prop):
    id = "C05"
    level = "fault_enumeration"
    title = "Illegal actions have only their documented effect"
    needs_fault = True
    rule = ("one run = one episode; at every visited non-terminal state EVERY in-spec action that the independent rules forbid is "
            "injected through a forked jit(vmap(step)) (sampled to 512 only when the illegal set is larger) and the successor is "
            "compared with the documented effect; distinct = distinct trace digest; non-trivial = >= 3 steps and >= 1 illegal action "
            "injected and judged")
    quick_runs = 16

    def env_names(self) -> List[str]:
        return ["TSP", "CVRP", "Knapsack", "BinPack", "JobShop", "GraphColoring", "Sudoku", "Minesweeper", "Snake", "Tetris", "Cleaner",
                "Maze", "PacMan", "Sokoban", "SlidingTilePuzzle", "Game2048", "FlatPack", "Connector", "RobotWarehouse", "LevelBasedForaging"]

    def monitors(self, adapter: Any) -> List[Monitor]:
        return [InvalidEffect()]

    def plan(self, rng, adapter, env, cfg) -> Plan:
        w = swarm_weights(rng, ["LEGAL_UNIFORM", "MASK_UNIFORM", "LEGAL_FIRST", "LEGAL_LAST", "COMPLETE", "SURVIVE", "COLLIDE"])
        return Plan(w, illegal_rate=0.0, max_steps=min(adapter.max_steps(env, cfg), 120), sticky=bool(rng.random() < 0.5))


PROP = C05()
