"""C15 - gym / dm_env / multi-to-single adapters relay the native episode faithfully."""
from __future__ import annotations

from typing import Any, Dict, List

from jsim.props.base import Prop

MULTI = ("Connector", "LevelBasedForaging")


class C15(Prop):
    id = "C15"
    custom = True
    title = "Gym, dm_env and multi-to-single adapters relay the native episode faithfully"
    rule = ("one run = an op sequence on a stateful adapter (gym: seed / reset(seed=) / reset / step with seeded action_space.sample() "
            "or mask-legal actions / re-seed-and-replay; dm_env: reset / step; MultiToSingleWrapper: reset / step with default and "
            "custom aggregators), with RESEED and MID_RESET faults, shadowed op by op by the native API on the documented key "
            "schedule; distinct = distinct op-list digest; non-trivial = >= 3 steps and >= 1 reset compared")
    quick_runs = 5

    def select_configs(self, adapter: Any, tier: str) -> List[Dict[str, Any]]:
        cfgs = adapter.configs()
        quick = [c for c in cfgs if c.get("quick") and not c.get("clock")]
        clock = [c for c in cfgs if c.get("clock") and c.get("tl") == 3]
        if tier == "quick":
            return (clock[:1] or quick[1:2]) + quick[:1] + [c for c in quick if c.get("c15")][:1]
        return [c for c in cfgs if not c.get("clock")] + clock

    def expand(self, task: Dict[str, Any]) -> List[Dict[str, Any]]:
        out = []
        first = task["cfg"].get("quick") and not task["cfg"].get("clock")
        kinds = ["gym", "dm"] if (task["tier"] == "thorough" or not first) else ["gym"]
        for k in kinds:
            t = dict(task)
            t["kind"] = k
            out.append(t)
        if task["env"] in MULTI:
            for agg in ("default", "custom"):
                t = dict(task)
                t["kind"], t["aggregators"] = "m2s", agg
                out.append(t)
            # gym / dm_env on top of a MultiToSingleWrapper with custom (mean, min) aggregators: a MID step can then
            # carry an aggregated discount of zero, which separates "terminated" from "the step is LAST"
            for k in kinds:
                t = dict(task)
                t["kind"], t["aggregators"] = k, "custom"
                out.append(t)
        return out

    def run_task(self, task: Dict[str, Any]) -> Dict[str, Any]:
        from jsim import adaptsim

        return adaptsim.run_task(self, task)

    def replay(self, v: Dict[str, Any], path: str) -> int:
        from jsim import adaptsim

        return adaptsim.replay(v, path)


PROP = C15()
