"""C11 - episodes end exactly at the configured time limit; bounded termination elsewhere."""
from __future__ import annotations

from typing import Any, Dict, List

import numpy as np

from jsim.core import Ctx, Monitor, Rec
from jsim.generic import Plan, swarm_weights
from jsim.props.base import Prop

TL_ENVS = ["RubiksCube", "SlidingTilePuzzle", "Tetris", "Cleaner", "Connector", "LevelBasedForaging", "Maze", "MMST",
           "PacMan", "RobotWarehouse", "Snake", "Sokoban"]
HZ_ENVS = ["TSP", "CVRP", "MultiCVRP", "Knapsack", "BinPack", "FlatPack", "JobShop", "GraphColoring", "Sudoku", "Minesweeper"]


class ClockMonitor(Monitor):
    """Index of the first LAST vs the configured time limit / structural horizon."""

    name = "clock"

    def on_step(self, ctx: Ctx, rec: Rec) -> None:
        if rec.post_terminal:
            return
        ad, env, cfg = ctx.adapter, ctx.env, ctx.cfg
        tl = ad.time_limit(env, cfg)
        hz = ad.horizon(env, cfg)
        last = int(rec.ts.step_type) == 2
        if tl is not None:
            if rec.t > tl:
                ctx.fail(self.name, "later_than_time_limit", f"step {rec.t} executed without a LAST although time_limit={tl}")
            if rec.t == tl and not last:
                ctx.fail(self.name, "no_last_at_time_limit", f"step {rec.t} == time_limit={tl} is not LAST (step_type={int(rec.ts.step_type)})")
            if last and rec.t == tl:
                ctx.stats.probe("time_limit_reached")
            if last and rec.t < tl:
                cause = ad.end_cause(rec.prev_state, rec.action, rec.state, rec.ts, env, cfg)
                if cause is None:
                    ctx.fail(self.name, "early_end_without_cause", f"LAST at step {rec.t} < time_limit={tl} and no documented cause holds "
                             f"(action {rec.action})")
                if cause != "unmodelled":
                    ctx.stats.probe("early_end_" + cause)
                else:
                    ctx.stats.probe("early_end_unjudged")
        elif hz is not None:
            if rec.t >= hz and not last:
                ctx.fail(self.name, "no_last_within_horizon", f"step {rec.t} >= structural horizon {hz} and the episode has not ended")
            if last:
                ctx.stats.probe("ended_within_horizon")
                if rec.t == hz:
                    ctx.stats.probe("ended_exactly_at_horizon")
        ctx.stats.check("clock")


class C11(Prop):
    id = "C11"
    title = "Episodes end exactly at the configured time limit (and within a known horizon)"
    rule = ("one run = one episode on a configuration with an explicit or default time limit (CLOCK_EDGE: time_limit in "
            "{1,2,3,7,None,default}) under survive / legal / stalling policies, or on a limit-less env under arbitrary in-spec "
            "policies with ILLEGAL injections; distinct = distinct trace digest; non-trivial = the run reached a LAST (so the index "
            "of the first LAST was compared with the limit or horizon)")
    quick_runs = 24

    def env_names(self) -> List[str]:
        return TL_ENVS + HZ_ENVS

    def select_configs(self, adapter: Any, tier: str) -> List[Dict[str, Any]]:
        cfgs = adapter.configs()
        if adapter.name in TL_ENVS:
            if tier == "quick":
                keep = [c for c in cfgs if c.get("clock") and c.get("tl") in (1, 2, 3, 7, None) and not c.get("long_default")]
                # the default limit on the default configuration and on the small one (a default that is clipped or derived
                # from the instance size shows on the small instance only)
                dflt = [c for c in cfgs if c.get("quick") and not c.get("clock")][:2]
                return keep + dflt
            return cfgs
        if tier == "quick":
            return [c for c in cfgs if c.get("quick")]
        return cfgs

    def monitors(self, adapter: Any) -> List[Monitor]:
        return [ClockMonitor()]

    def plan(self, rng, adapter, env, cfg) -> Plan:
        tl = adapter.time_limit(env, cfg)
        if tl is not None:
            w = swarm_weights(rng, ["SURVIVE", "SURVIVE", "LEGAL_UNIFORM", "MASK_UNIFORM", "UNIFORM_INSPEC"])
            w["SURVIVE"] = w.get("SURVIVE", 0) + 6.0
            if rng.random() < 0.25:
                # completion-driving play: the other documented cause (solved, target reached, all clean ...) can then fall
                # on the very step of the time limit - the episode must still end there, not a step later
                w = {"COMPLETE": 1.0} if rng.random() < 0.5 else {"COMPLETE": 3.0, "SURVIVE": 1.0}
            ill = float(rng.choice([0.0, 0.0, 0.05]))
            return Plan(w, illegal_rate=ill, max_steps=min(tl + 2, 4200), sticky=bool(rng.random() < 0.6))
        w = swarm_weights(rng, ["LEGAL_UNIFORM", "MASK_UNIFORM", "UNIFORM_INSPEC", "ILLEGAL_BIASED", "SURVIVE", "LEGAL_FIRST", "LEGAL_LAST"])
        hz = adapter.horizon(env, cfg)
        return Plan(w, illegal_rate=float(rng.choice([0.0, 0.1, 0.3])), max_steps=hz + 2, sticky=bool(rng.random() < 0.5))

    def runs_for(self, adapter, cfg, tier):
        tl = cfg.get("tl", 0)
        if adapter.name in TL_ENVS and tl is None:
            # default limits are long (up to 4000 steps) in some environments; where they are short, more runs are affordable
            return 6 if adapter.name in ("Snake", "PacMan", "RobotWarehouse", "SlidingTilePuzzle", "Tetris") else 18
        return self.quick_runs


PROP = C11()
