"""C06 - mask-respecting play never violates the hard constraints of the problem."""
from __future__ import annotations

from typing import Any, List

import numpy as np

from jsim.core import Ctx, Monitor, Rec, is_last
from jsim.generic import Plan, swarm_weights
from jsim.props.base import Prop

CO = ["BinPack", "FlatPack", "Knapsack", "CVRP", "MultiCVRP", "TSP", "JobShop", "GraphColoring", "Sudoku", "Connector", "MMST"]


class Feasibility(Monitor):
    name = "feasibility"

    def on_reset(self, ctx: Ctx, rec: Rec) -> None:
        ctx.scratch["judging"] = True
        self._check(ctx, rec)

    def _check(self, ctx: Ctx, rec: Rec) -> None:
        dev = ctx.adapter.constraints(ctx.history, ctx.env, ctx.cfg)
        ctx.stats.check("states_checked")
        if dev is not None:
            ctx.fail(self.name, dev[0], f"t={rec.t}: {dev[1]}")

    def on_step(self, ctx: Ctx, rec: Rec) -> None:
        if rec.post_terminal or not ctx.scratch.get("judging"):
            return
        # the property quantifies over mask-respecting play: the action must have been masked in
        mask = ctx.adapter.env_mask(rec.prev_ts.observation)
        if mask is not None and not ctx.adapter.action_in_mask(rec.action, mask):
            ctx.scratch["judging"] = False  # forced illegal move (empty legal set): stop judging this run
            ctx.stats.probe("run_left_mask_respecting_play")
            return
        self._check(ctx, rec)
        if is_last(rec.ts):
            ctx.stats.probe("episode_ended")


class C06(Prop):
    id = "C06"
    title = "Mask-respecting play never violates the hard constraints of the problem"
    rule = ("one run = one episode of mask-respecting play (uniform over the env's mask, lowest / highest masked-in index, "
            "completion-driving and adversarial fill orders); after every step the constraints are recomputed from raw state arrays "
            "and the recorded action history; distinct = distinct trace digest; non-trivial = >= 3 steps, all judged")
    quick_runs = 30

    def env_names(self) -> List[str]:
        return CO

    def monitors(self, adapter: Any) -> List[Monitor]:
        return [Feasibility()]

    def plan(self, rng, adapter, env, cfg) -> Plan:
        w = swarm_weights(rng, ["MASK_UNIFORM", "MASK_FIRST", "MASK_LAST", "COMPLETE", "MASK_UNIFORM"])
        return Plan(w, illegal_rate=0.0, max_steps=adapter.max_steps(env, cfg), sticky=bool(rng.random() < 0.6),
                    follow_env_mask=True)


PROP = C06()
