"""Base class for properties decided with the generic closed loop."""
from __future__ import annotations

from typing import Any, Dict, List

import numpy as np

from jsim import envs
from jsim.core import Monitor
from jsim.generic import GenericScheduler, Plan


class Prop:
    id = "C00"
    level = "exploration"
    title = ""
    rule = ""
    assumptions: List[str] = []
    needs_fault = False  # a run is non-trivial only if >= 1 fault fired
    quick_runs = 40
    keep_history = True

    # which envs / configs -------------------------------------------------------------------
    def env_names(self) -> List[str]:
        return envs.all_names()

    def select_configs(self, adapter: Any, tier: str) -> List[Dict[str, Any]]:
        cfgs = adapter.configs()
        if tier == "quick":
            return [c for c in cfgs if c.get("quick")]
        return cfgs

    def runs_for(self, adapter: Any, cfg: Dict[str, Any], tier: str) -> int:
        if self.custom:
            return self.quick_runs
        return int(self.quick_runs * getattr(adapter, "run_scale", 1))

    def shards(self, adapter: Any, cfg: Dict[str, Any], tier: str) -> int:
        return 1

    def expand(self, task: Dict[str, Any]) -> List[Dict[str, Any]]:
        return [task]

    def post(self, results: List[Dict[str, Any]], seed: int) -> List[Dict[str, Any]]:
        """Engine-side checks over the gathered task results (cross-task history checks)."""
        return []

    def cost(self, adapter: Any, cfg: Dict[str, Any]) -> float:
        return 1.0

    # what runs --------------------------------------------------------------------------------
    def monitors(self, adapter: Any) -> List[Monitor]:
        raise NotImplementedError

    def plan(self, rng: np.random.Generator, adapter: Any, env: Any, cfg: Dict[str, Any]) -> Plan:
        raise NotImplementedError

    def source(self, sysm: Any, rng: np.random.Generator, plan: Plan) -> Any:
        return GenericScheduler(sysm, rng, plan)

    # generic-loop properties use worker.run_generic; others override run_task ---------------------
    custom = False
