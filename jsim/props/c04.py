"""C04 - the action mask is exactly the set of legal moves (rule oracle + reaction oracle)."""
from __future__ import annotations

from typing import Any, List

import numpy as np

from jsim.core import Ctx, Monitor, Rec, is_last
from jsim.generic import Plan, swarm_weights
from jsim.props.base import Prop

MASKED = ["Game2048", "GraphColoring", "Minesweeper", "Sudoku", "SlidingTilePuzzle", "BinPack", "FlatPack", "JobShop", "Knapsack",
          "Tetris", "Cleaner", "Connector", "CVRP", "LevelBasedForaging", "Maze", "MMST", "MultiCVRP", "PacMan", "RobotWarehouse",
          "Snake", "TSP"]


def fmt_idx(idx: Any) -> str:
    return "[" + ",".join(str(int(i)) for i in idx) + "]"


class MaskRules(Monitor):
    """(a) mask vs the independent statement of the rules, entry by entry, at every non-terminal state."""

    name = "mask_vs_rules"

    def _check(self, ctx: Ctx, rec: Rec) -> None:
        if is_last(rec.ts):
            return
        ad = ctx.adapter
        mask = ad.env_mask(rec.ts.observation)
        b = ad.legal_bounds(rec.state, ctx.env)
        if mask is None or b is None:
            return
        lo, hi = b
        if lo.shape != mask.shape:
            raise AssertionError(f"model mask shape {lo.shape} vs env mask {mask.shape} ({ad.name})")
        judged = ad.judged(rec.state, ctx.env)
        hides = lo & ~mask
        admits = mask & ~hi
        if judged is not None:
            hides &= judged
            admits &= judged
        ctx.stats.check("mask_entries_judged", int(mask.size if judged is None else judged.sum()))
        ctx.stats.check("mask_states")
        sm = getattr(rec.state, "action_mask", None)
        if sm is not None and np.asarray(sm).shape == mask.shape and not np.array_equal(np.asarray(sm).astype(bool), mask):
            ctx.fail(self.name, "state_mask_differs_from_observation_mask", f"t={rec.t}: state.action_mask != observation.action_mask")
        if hides.any():
            i = np.argwhere(hides)[0]
            ctx.fail(self.name, "mask_hides_legal_move", f"t={rec.t}: entry {fmt_idx(i)} is legal by the rules but masked out "
                     f"({int(hides.sum())} such entries); {ad.describe(rec.state, ctx.env, tuple(int(x) for x in i))}")
        if admits.any():
            i = np.argwhere(admits)[0]
            ctx.fail(self.name, "mask_admits_illegal_move", f"t={rec.t}: entry {fmt_idx(i)} is illegal by the rules but masked in "
                     f"({int(admits.sum())} such entries); {ad.describe(rec.state, ctx.env, tuple(int(x) for x in i))}")

    def on_reset(self, ctx: Ctx, rec: Rec) -> None:
        self._check(ctx, rec)

    def on_step(self, ctx: Ctx, rec: Rec) -> None:
        if not rec.post_terminal:
            self._check(ctx, rec)


class MaskReaction(Monitor):
    """(b) fork the run over every action and compare the mask with the env's own reaction."""

    name = "mask_vs_reaction"

    def _check(self, ctx: Ctx, rec: Rec) -> None:
        if is_last(rec.ts):
            return
        ad, env = ctx.adapter, ctx.env
        if not ad.has_reaction:
            return
        n = ctx.scratch.get("visits", 0)
        ctx.scratch["visits"] = n + 1
        if n % ad.fork_every:
            return
        mask = ad.env_mask(rec.ts.observation)
        if mask is None:
            return
        b = ad.legal_bounds(rec.state, env)
        base = ad.base_action(rec.state, env, mask if b is None else b[0])
        rng = ctx.det_rng(rec.state, "c04fork")
        actions, idx, complete = ad.enumerate_actions(env, mask.shape, base, rng)
        try:
            ns, nts = ctx.sys.fork(rec.jstate, actions)
        except Exception as e:  # noqa: BLE001  (every action is inside the action spec: step must answer it)
            ctx.fail(self.name, "forked_step_raised:" + type(e).__name__, f"t={rec.t}: vmap(step) over the action space raised {type(e).__name__}: {str(e)[:200]}")
        ctx.stats.probe("fork_enumerated_complete" if complete else "fork_sampled")
        judged = ad.judged(rec.state, env)
        import jax

        for k, ix in enumerate(idx):
            if judged is not None and not judged[ix]:
                continue
            s_k = jax.tree_util.tree_map(lambda x: x[k], ns)
            ts_k = jax.tree_util.tree_map(lambda x: x[k], nts)
            agent = ix[0] if ad.mask_mode == "per_agent" else None
            verdict = ad.reaction_invalid(rec.state, actions[k].tolist() if actions[k].ndim else int(actions[k]), agent, s_k, ts_k, env, ctx.cfg)
            if verdict is None:
                continue
            ctx.stats.check("reaction_entries")
            if mask[ix] and verdict:
                ctx.fail(self.name, "masked_in_but_treated_invalid", f"t={rec.t}: action {actions[k].tolist()} (mask entry {fmt_idx(ix)} True) "
                         f"was treated as invalid by step")
            if not mask[ix] and not verdict:
                ctx.fail(self.name, "masked_out_but_accepted", f"t={rec.t}: action {actions[k].tolist()} (mask entry {fmt_idx(ix)} False) "
                         f"was accepted by step as a valid move")

    def on_reset(self, ctx: Ctx, rec: Rec) -> None:
        self._check(ctx, rec)

    def on_step(self, ctx: Ctx, rec: Rec) -> None:
        if not rec.post_terminal:
            self._check(ctx, rec)


class C04(Prop):
    id = "C04"
    title = "The action mask is exactly the set of legal moves"
    rule = ("one run = one episode; at every non-terminal state the whole mask is compared entry by entry with an independent NumPy "
            "statement of the rules and (envs that recompute validity in step) the run is forked over every action of the action "
            "space with jit(vmap(step)) to read the env's own reaction; distinct = distinct trace digest; non-trivial = >= 3 steps and "
            ">= 1 mask judged")
    quick_runs = 24

    def env_names(self) -> List[str]:
        return MASKED

    def monitors(self, adapter: Any) -> List[Monitor]:
        return [MaskRules(), MaskReaction()]

    def plan(self, rng, adapter, env, cfg) -> Plan:
        w = swarm_weights(rng, ["LEGAL_UNIFORM", "MASK_UNIFORM", "LEGAL_FIRST", "LEGAL_LAST", "UNIFORM_INSPEC", "COMPLETE", "COLLIDE", "SURVIVE"])
        return Plan(w, illegal_rate=float(rng.choice([0.0, 0.0, 0.05])), max_steps=min(adapter.max_steps(env, cfg), 150),
                    sticky=bool(rng.random() < 0.6))


PROP = C04()
