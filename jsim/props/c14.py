"""C14 - batched wrappers equal per-instance execution; VmapAutoReset = Vmap(AutoReset)."""
from __future__ import annotations

from typing import Any, Dict, List

from jsim.props.base import Prop
from jsim.props.c13 import wrapper_configs


class C14(Prop):
    id = "C14"
    custom = True
    title = "Batched wrappers equal per-instance execution; VmapAutoReset = Vmap(AutoReset)"
    needs_fault = True
    stubs = ["agents/policies (simulated clients)", "env.render replaced by a recorder for the render clause"]
    rule = ("one run = a batch of B elements (nodes) stepped for 6-24 segments (VMAP single steps, SCAN bursts, SOLO steps that "
            "stagger the elements' clocks) while a per-step kill set ends none / some / all episodes; VmapAutoResetWrapper and "
            "VmapWrapper(AutoResetWrapper) are fed identical inputs and compared, every slice is compared with the single-instance "
            "reference, VmapWrapper slices with env.step, render with element 0; distinct = distinct (ops, final states) digest; "
            "non-trivial = >= 3 steps and >= 1 element was reset")
    quick_runs = 5  # per shard; the quick tier runs two shards per configuration (both next_obs_in_extras settings, two batch sizes)

    def select_configs(self, adapter: Any, tier: str) -> List[Dict[str, Any]]:
        return wrapper_configs(adapter, tier)

    def shards(self, adapter, cfg, tier):
        return 2 if tier == "quick" else 3

    def run_task(self, task: Dict[str, Any]) -> Dict[str, Any]:
        from jsim import wrapsim

        task = dict(task)
        if task["tier"] == "quick":
            # shard 0: batch of 3; shard 1: another batch size, chosen per (env, config) from 1, 2, 4 (batch size 1 included)
            from jsim import util

            task.setdefault("B", 3 if task["shard"] == 0 else [1, 2, 4][util.crc(task["env"] + task["cfg"]["id"]) % 3])
        else:
            task.setdefault("B", [1, 4, 8][task["shard"] % 3])
        task.setdefault("scan_len", 3)
        return wrapsim.run_task(self, task)

    def replay(self, v: Dict[str, Any], path: str) -> int:
        from jsim import wrapsim

        return wrapsim.replay(self, v, path)


PROP = C14()
