"""C18 (stateful part): the process-global registry driven by op sequences against a dict model."""
from __future__ import annotations

import copy
import time
from typing import Any, Dict, List, Optional, Tuple

import numpy as np

from jsim import util
from jsim.core import Stats, Violation, shrink

ALPHA = "abcdefghijklmnopqrstuvwxyzABCDEFGHIJKLMNOPQRSTUVWXYZ0123456789_:.-"
ENTRY = {"A": "jsim.fakes:FakeEnvA", "B": "jsim.fakes:FakeEnvB", "C": "jsim.fakes:FakeEnvC",
         "A2": "jsim.fakes2:FakeEnvA", "B2": "jsim.fakes2:FakeEnvB"}  # same class names in a second package


def gen_name(rng: np.random.Generator) -> str:
    n = int(rng.integers(1, 9))
    s = "".join(ALPHA[int(i)] for i in rng.integers(0, len(ALPHA), size=n))
    if rng.random() < 0.15:
        s += "-v" + str(int(rng.integers(0, 9)))  # names may themselves contain a version-like suffix
    return "Z" + s  # never collides with the shipped ids' names by accident (they are checked separately)


def gen_version(rng: np.random.Generator) -> int:
    r = rng.random()
    if r < 0.5:
        return int(rng.integers(0, 10))
    if r < 0.8:
        return int(rng.integers(10, 100000))
    return int(rng.integers(10**9, 10**15))


def malformed(rng: np.random.Generator, name: str, ver: int) -> str:
    k = int(rng.integers(0, 7))
    import re

    bare = name + "q" if re.search(r"-v\d+$", name) else name  # a version-less id must not end in a version-like suffix
    return [bare, f"{name}-v", f"{name}-v-{ver}", f"{name}-V{ver}", f"{name} x-v{ver}", f"{name}-v{ver}\n", f"{name}-v{ver}x"][k]


def snapshot_registry() -> Dict[str, Tuple[str, str]]:
    from jumanji import registration as R

    return {k: (v.entry_point, util.canon(_plain(v.kwargs))) for k, v in R._REGISTRY.items()}


def _plain(x: Any) -> Any:
    if isinstance(x, dict):
        return {str(k): _plain(v) for k, v in x.items()}
    if isinstance(x, (list, tuple)):
        return [_plain(v) for v in x]
    if isinstance(x, (int, float, str, bool)) or x is None:
        return x
    return f"<{type(x).__name__}@{id(x)}>"


class RegRun:
    def __init__(self, stats: Stats):
        from jumanji import registration as R

        self.R, self.stats = R, stats
        self.saved = dict(R._REGISTRY)
        self.model: Dict[str, Tuple[str, Dict[str, Any]]] = {}
        self.shipped = set(self.saved)

    def restore(self) -> None:
        self.R._REGISTRY.clear()
        self.R._REGISTRY.update(self.saved)

    def fail(self, monitor: str, cls: str, detail: str) -> None:
        raise Violation("C18", "registry", monitor, cls, detail)

    def invariant(self, where: str) -> None:
        R = self.R
        got = R.registered_environments()
        want = self.shipped | set(self.model)
        if got != want:
            self.fail("registry_model", "registered_set_differs_from_model", f"{where}: extra {sorted(got - want)[:3]} missing {sorted(want - got)[:3]}")
        for k, (ep, kw) in self.model.items():
            spec = R._REGISTRY[k]
            if spec.entry_point != ep or _plain(spec.kwargs) != _plain(kw):
                self.fail("registry_model", "stored_spec_differs_from_model", f"{where}: {k}: {spec.entry_point} {spec.kwargs} vs registered {ep} {kw}")
        self.stats.check("registry_invariants")

    def apply(self, op: List[Any]) -> None:
        R = self.R
        from jsim import fakes

        kind = op[0]
        before = snapshot_registry()
        if kind == "register":
            _, id_, which, kw, expect = op
            exists = id_ in (self.shipped | set(self.model))
            try:
                R.register(id=id_, entry_point=ENTRY[which], kwargs=copy.deepcopy(kw))
                ok, err = True, None
            except ValueError as e:
                ok, err = False, e
            if expect == "fresh":
                if not ok:
                    self.fail("register", "wellformed_fresh_id_refused", f"register({id_!r}) raised {err!r}")
                self.model[id_] = (ENTRY[which], kw)
            else:
                if ok:
                    cls = "duplicate_registration_accepted" if expect == "dup" else "malformed_id_registered"
                    self.fail("register", cls, f"register({id_!r}) ({expect}) did not raise; exists={exists}")
                if snapshot_registry() != before:
                    self.fail("register", "refused_registration_changed_registry", f"register({id_!r}) raised but the registry changed")
                self.stats.inc(self.stats.faults, "DUP_REGISTER" if expect == "dup" else "BAD_ID")
        elif kind == "make":
            _, id_, overrides, expect = op
            n0 = len(fakes.CALLS)
            try:
                obj = R.make(id_, **copy.deepcopy(overrides))
                ok, err = True, None
            except ValueError as e:
                ok, err, obj = False, e, None
            if expect == "known":
                if not ok:
                    self.fail("make", "registered_id_not_made", f"make({id_!r}) raised {err!r}")
                ep, kw = self.model[id_]
                want_kw = dict(kw)
                want_kw.update(overrides)
                if type(obj).__module__ + ":" + type(obj).__name__ != ep or len(fakes.CALLS) != n0 + 1:
                    self.fail("make", "wrong_class_constructed", f"make({id_!r}) built {type(obj).__module__}:{type(obj).__name__}, registered {ep}")
                if obj.args != () or _plain(obj.kwargs) != _plain(want_kw):
                    self.fail("make", "constructor_arguments_wrong", f"make({id_!r}, **{overrides}) called the constructor with {obj.kwargs}; registered "
                              f"{kw} overridden by the caller gives {want_kw}")
            else:
                if ok:
                    self.fail("make", "unknown_or_malformed_id_made", f"make({id_!r}) ({expect}) returned {type(obj).__name__}")
                if expect == "unknown":
                    msg = str(err)
                    missing = [k for k in sorted(self.shipped | set(self.model)) if k not in msg]
                    if missing:
                        self.fail("make", "error_does_not_list_registered_ids", f"make({id_!r}): error text lacks {missing[:3]}")
                self.stats.inc(self.stats.faults, "BAD_ID")
            if snapshot_registry() != before:
                self.fail("make", "make_changed_registry", f"make({id_!r}, **{overrides}) changed the registry (stored kwargs mutated?)")
        elif kind == "parse":
            _, id_, expect, name, ver = op
            try:
                got = R.parse_env_id(id_)
                ok = True
            except ValueError:
                ok, got = False, None
            if expect == "wellformed":
                if not ok or got != (name, ver):
                    self.fail("id_grammar", "wellformed_id_not_parsed", f"parse_env_id({id_!r}) = {got}, expected {(name, ver)}")
                if R.get_env_id(*got) != id_:
                    self.fail("id_grammar", "id_does_not_round_trip", f"get_env_id(*parse_env_id({id_!r})) = {R.get_env_id(*got)!r}")
            else:
                if ok:
                    self.fail("id_grammar", "malformed_id_accepted", f"parse_env_id({id_!r}) = {got}")
                self.stats.inc(self.stats.faults, "BAD_ID")
        self.stats.steps += 1
        self.invariant(f"after {op[:2]}")


def generate(rng: np.random.Generator) -> List[List[Any]]:
    ops: List[List[Any]] = []
    known: List[str] = []
    shipped = ["Snake-v1", "TSP-v1", "Game2048-v1", "RubiksCube-partly-scrambled-v0"]
    for _ in range(int(rng.integers(6, 30))):
        r = rng.random()
        name, ver = gen_name(rng), gen_version(rng)
        if known and rng.random() < 0.3:
            # another version of a name that is already registered (ids that share a name are distinct ids)
            name = known[int(rng.integers(0, len(known)))].rsplit("-v", 1)[0]
            while f"{name}-v{ver}" in known:
                ver += 1
        id_ = f"{name}-v{ver}"
        kw = {k: int(rng.integers(0, 100)) for k in ["alpha", "beta", "gamma"][: int(rng.integers(0, 4))]}
        if rng.random() < 0.3:
            kw["nested"] = {"x": [1, 2, int(rng.integers(0, 9))]}
        which = str(rng.choice(["A", "B", "C", "A2", "B2"]))
        if r < 0.3:
            ops.append(["register", id_, which, kw, "fresh"])
            known.append(id_)
        elif r < 0.42:
            if known and rng.random() < 0.7:
                dup = known[int(rng.integers(0, len(known)))]
                if rng.random() < 0.3 and not dup.endswith("-v0"):
                    # same id written with a leading zero: normalises to the existing id
                    n, v = dup.rsplit("-v", 1)
                    dup = f"{n}-v0{v}"
                ops.append(["register", dup, which, kw, "dup"])
            else:
                ops.append(["register", shipped[int(rng.integers(0, len(shipped)))], which, kw, "dup"])
        elif r < 0.52:
            ops.append(["register", malformed(rng, name, ver), which, kw, "malformed"])
        elif r < 0.75 and known:
            target = known[int(rng.integers(0, len(known)))]
            over = {k: int(rng.integers(100, 200)) for k in ["alpha", "delta", "nested"][: int(rng.integers(0, 4))]}
            ops.append(["make", target, over, "known"])
        elif r < 0.83:
            if id_ not in known:  # (short random names do collide with an id registered earlier in the run: that id is known)
                ops.append(["make", id_, {}, "unknown"])
        elif r < 0.88:
            ops.append(["make", malformed(rng, name, ver), {}, "malformed"])
        elif r < 0.95:
            ops.append(["parse", id_, "wellformed", name, ver])
        else:
            ops.append(["parse", malformed(rng, name, ver), "malformed", name, ver])
    return util.jsonable(ops)


def execute(ops: List[List[Any]], stats: Stats) -> None:
    run = RegRun(stats)
    try:
        known = set()
        for op in ops:
            # preconditions that shrinking may have removed
            if op[0] == "register" and op[4] == "fresh":
                if op[1] in known:
                    continue
                known.add(op[1])
            if op[0] == "register" and op[4] == "dup" and not (op[1] in run.shipped or _norm(op[1]) in known):
                continue
            if op[0] == "make" and op[3] == "known" and op[1] not in known:
                continue
            run.apply(op)
    finally:
        run.restore()


def _norm(id_: str) -> str:
    n, v = id_.rsplit("-v", 1)
    return f"{n}-v{int(v)}" if v.isdigit() else id_


# What each shipped id is documented to be (comments next to the registrations in jumanji/__init__.py, README table,
# docs/environments/*.md "Registered Versions"): the class with its default arguments, except the two ids below.
DOCUMENTED_CLASS = {
    "Game2048-v1": "Game2048", "GraphColoring-v0": "GraphColoring", "Minesweeper-v0": "Minesweeper", "RubiksCube-v0": "RubiksCube",
    "RubiksCube-partly-scrambled-v0": "RubiksCube", "Sudoku-v0": "Sudoku", "Sudoku-very-easy-v0": "Sudoku", "BinPack-v2": "BinPack",
    "FlatPack-v0": "FlatPack", "JobShop-v0": "JobShop", "Knapsack-v1": "Knapsack", "Tetris-v0": "Tetris", "Cleaner-v0": "Cleaner",
    "Connector-v2": "Connector", "MMST-v0": "MMST", "CVRP-v1": "CVRP", "MultiCVRP-v0": "MultiCVRP", "Maze-v0": "Maze",
    "RobotWarehouse-v0": "RobotWarehouse", "Snake-v1": "Snake", "TSP-v1": "TSP", "Sokoban-v0": "Sokoban", "PacMan-v1": "PacMan",
    "SlidingTilePuzzle-v0": "SlidingTilePuzzle", "LevelBasedForaging-v0": "LevelBasedForaging",
}


TIME_LIMITED = {"RubiksCube", "SlidingTilePuzzle", "Tetris", "Cleaner", "Connector", "LevelBasedForaging", "Maze", "MMST", "PacMan",
                "RobotWarehouse", "Snake", "Sokoban"}


def documented_env(id_: str) -> Any:
    """The environment the documentation describes for a shipped id, constructed directly (not through the registry)."""
    import os

    import jumanji
    from jumanji import environments as E

    cls = getattr(E, DOCUMENTED_CLASS[id_])
    if id_ == "RubiksCube-partly-scrambled-v0":  # "faces of size 3x3 yet only 7 scrambles at reset time", time limit 20
        from jumanji.environments.logic.rubiks_cube.generator import ScramblingGenerator

        return cls(time_limit=20, generator=ScramblingGenerator(cube_size=3, num_scrambles_on_reset=7))
    if id_ == "Sudoku-very-easy-v0":  # "1000 puzzles of very-easy difficulty (>46 clues)"
        from jumanji.environments.logic.sudoku import data as sd
        from jumanji.environments.logic.sudoku.generator import DatabaseGenerator

        root = os.path.join(os.path.dirname(os.path.abspath(jumanji.__file__)), "environments", "logic", "sudoku", "data")
        return cls(generator=DatabaseGenerator(database=np.load(os.path.join(root, sd.DATABASES["very-easy"]))))
    return cls()


def shipped_check(stats: Stats, seed: int, reverse: bool = False) -> Dict[str, str]:
    """All shipped ids instantiate (Sokoban through the DOWNLOAD stub); two make(id) calls give equal
    specs and identical behaviour on a short shared run."""
    import jax
    import jax.numpy as jnp
    import jumanji
    from jsim import fakes

    fakes.install_sokoban_download_stub()
    # the order in which the ids are first made in a process must not matter (class-level caches filled by whoever comes first)
    ids = sorted(jumanji.registered_environments(), reverse=reverse)
    if len(ids) < 25:
        raise Violation("C18", "registry", "shipped", "shipped_ids_missing", f"only {len(ids)} ids registered: {ids}")
    rng = util.sub_rng(seed, "c18shipped")
    digests: Dict[str, str] = {}
    keys = {i: int(rng.integers(0, 2**31 - 1)) for i in sorted(ids)}  # per id, independent of the order of the makes
    for id_ in ids:
        try:
            if DOCUMENTED_CLASS.get(id_) in TIME_LIMITED:
                # a caller's override in one make() must not leak into later plain make() calls - neither through the
                # registry entry nor through objects (generators) the registered kwargs hold
                e0 = jumanji.make(id_, time_limit=3)
                if int(getattr(e0, "time_limit", 3)) != 3:
                    raise Violation("C18", "registry", "shipped", "override_not_passed_to_constructor", f"make({id_!r}, time_limit=3).time_limit == {e0.time_limit}")
                stats.check("shipped_ids_made_with_override_first")
            e1, e2 = jumanji.make(id_), jumanji.make(id_)
        except Violation:
            raise
        except Exception as e:  # noqa: BLE001
            raise Violation("C18", "registry", "shipped", "shipped_id_does_not_instantiate", f"make({id_!r}) raised {type(e).__name__}: {str(e)[:200]}")
        if id_.startswith("Sokoban"):
            stats.inc(stats.faults, "DOWNLOAD", len(fakes.DOWNLOADS))
        for sp in ("observation_spec", "action_spec", "reward_spec", "discount_spec"):
            if repr(getattr(e1, sp)) != repr(getattr(e2, sp)):
                raise Violation("C18", "registry", "shipped", "two_makes_unequal_specs", f"{id_}: {sp} differs between two make() calls")
        # the id maps to the documented configuration: same class, equal specs and identical behaviour as the
        # environment constructed directly with the documented arguments
        e3 = documented_env(id_) if id_ in DOCUMENTED_CLASS else None
        if e3 is not None:
            if type(e1) is not type(e3):
                raise Violation("C18", "registry", "shipped", "shipped_id_builds_other_class", f"make({id_!r}) is a {type(e1).__name__}, documented {type(e3).__name__}")
            for sp in ("observation_spec", "action_spec", "reward_spec", "discount_spec"):
                if repr(getattr(e1, sp)) != repr(getattr(e3, sp)):
                    raise Violation("C18", "registry", "shipped", "shipped_id_differs_from_documented_configuration",
                                    f"{id_}: {sp} of make(id) differs from the directly constructed documented configuration")
        key = jax.random.PRNGKey(keys[id_])
        trace_: List[str] = []
        envs_ = [e1, e2] + ([e3] if e3 is not None else [])
        names_ = ["first make(id)", "second make(id)", "documented configuration"]
        cur = []
        for j, e in enumerate(envs_):
            try:
                cur.append(jax.jit(e.reset)(key))
            except Exception as ex:  # noqa: BLE001
                if j == 0:
                    raise  # nothing to compare with: a harness-level problem
                # the first environment made from this id answers the request; one made later from the same id does not
                raise Violation("C18", "registry", "shipped", "two_makes_behave_differently:" + type(ex).__name__,
                                f"{id_}: reset of the {names_[j]} raised {type(ex).__name__}: {str(ex)[:160]} although the {names_[0]} answered it")
        steps = [jax.jit(e.step) for e in envs_]
        n_steps = 4 if id_ not in ("RubiksCube-v0", "RubiksCube-partly-scrambled-v0") else 24  # past the documented time limit of 20
        for k in range(n_steps):
            for j, cls_ in ((1, "two_makes_behave_differently"), (2, "shipped_id_differs_from_documented_configuration")):
                if j < len(cur):
                    d = util.tree_diff(util.to_np(cur[0]), util.to_np(cur[j]))
                    if d:
                        raise Violation("C18", "registry", "shipped", cls_, f"{id_}: step {k}: {d[:2]}")
            t1 = cur[0][1]
            a = e1.action_spec.generate_value()
            m = getattr(t1.observation, "action_mask", None)
            if m is not None and k > 0:
                m = np.asarray(m)
                if m.any() and m.ndim == 1:
                    a = jnp.asarray(int(np.flatnonzero(m)[0]), dtype=e1.action_spec.dtype)
            trace_.append(util.tree_digest(util.to_np(cur[0])))
            cur = [st(c[0], a) for st, c in zip(steps, cur)]
            stats.steps += 1
        stats.check("shipped_ids_made_twice")
        if e3 is not None:
            stats.check("shipped_ids_vs_documented_configuration")
        digests[id_] = util.tree_digest(trace_)
    return digests


def run_task(prop: Any, task: Dict[str, Any]) -> Dict[str, Any]:
    t0 = time.time()
    stats = Stats()
    digests: List[int] = []
    nontrivial: List[bool] = []
    samples: List[Any] = []
    violations: List[Dict[str, Any]] = []
    seen = set()
    cfg = task["cfg"]
    if cfg["id"].startswith("shipped"):
        shipped_digests = None
        try:
            shipped_digests = shipped_check(stats, task["seed"], reverse=cfg["id"].endswith("_rev"))
            if not cfg["id"].endswith("_rev"):
                user_registration_check(stats)
            stats.runs += 1
            digests += [1, 2]
            nontrivial += [True, True]
            samples.append({"shipped_ids": "all registered ids made twice; specs and 4-step behaviour compared"})
        except Violation as v:
            violations.append({"property": "C18", "env": "registry", "config": cfg, "seed": task["seed"], "shard": 0, "run": 0,
                               "monitor": v.monitor, "class": v.cls, "detail": v.detail, "ops": [], "ops_unminimised": []})
    else:
        n_runs = task.get("runs")
        deadline = t0 + task["wall"] if task.get("wall") else None
        i = 0
        while True:
            if n_runs is not None and i >= n_runs:
                break
            if deadline is not None and time.time() > deadline and i >= 2:
                break
            rng = util.sub_rng(task["seed"], "C18", task["shard"], i)
            ops = generate(rng)
            f0 = sum(stats.faults.values())
            try:
                execute(ops, stats)
            except Violation as v:
                key = (v.monitor, v.cls)
                if key not in seen and len(violations) < 6:
                    seen.add(key)

                    def still(cand: List[Any]) -> bool:
                        try:
                            execute(cand[1:], Stats())
                        except Violation as v2:
                            return (v2.monitor, v2.cls) == key
                        return False

                    small = shrink([["start"]] + ops, still, budget=60)[1:]
                    detail = v.detail
                    try:
                        execute(small, Stats())
                        small = ops
                    except Violation as v3:
                        detail = v3.detail
                    violations.append({"property": "C18", "env": "registry", "config": cfg, "seed": task["seed"], "shard": task["shard"],
                                       "run": i, "monitor": v.monitor, "class": v.cls, "detail": detail, "ops": small, "ops_unminimised": ops})
                stats.probe("runs_ending_in_violation")
                i += 1
                continue
            stats.runs += 1
            digests.append(int(util.crc(util.canon(ops))))
            nontrivial.append(bool(len(ops) >= 3 and sum(stats.faults.values()) - f0 >= 1))
            if len(samples) < 2:
                samples.append({"ops": ops[:8], "n_ops": len(ops)})
            i += 1
    return {
        "task": {"prop": "C18", "env": "registry", "cfg": cfg["id"], "shard": task["shard"]},
        "runs": stats.runs, "attempted": stats.runs, "steps": stats.steps, "faults": stats.faults, "policies": {},
        "transports": {}, "probes": stats.probes, "checks": stats.checks, "states": b"", "n_states": 0,
        "digests": digests, "nontrivial": nontrivial, "samples": samples, "violations": violations, "det_ok": None,
        "wall": time.time() - t0, "shipped_digests": (shipped_digests if cfg["id"].startswith("shipped") else None),
    }


def user_registration_check(stats: Stats) -> None:
    """A user registers real environment classes with keyword arguments that hold objects (generators). make(id, **override)
    must leave what later make(id) calls build - and what earlier ones built - untouched: the registered arguments are
    overridden for that one call only (neither the registry entry nor the objects it holds may be written to)."""
    import jax
    import jumanji
    from jumanji import registration as R
    from jumanji.environments import MMST, RubiksCube
    from jumanji.environments.logic.rubiks_cube.generator import ScramblingGenerator
    from jumanji.environments.routing.mmst.generator import SplitRandomGenerator

    def trace(env: Any) -> List[str]:
        s, ts = jax.jit(env.reset)(jax.random.PRNGKey(11))
        out = [util.tree_digest(util.to_np((s, ts)))]
        step = jax.jit(env.step)
        for _ in range(4):
            s, ts = step(s, env.action_spec.generate_value())
            out.append(util.tree_digest(util.to_np((s, ts))))
        return out

    cases = [
        ("JsimUserMMST-v0", "jumanji.environments:MMST", MMST,
         lambda: {"generator": SplitRandomGenerator(num_nodes=12, num_edges=18, max_degree=4, num_agents=2, num_nodes_per_agent=3, max_step=12),
                  "time_limit": 12}, {"time_limit": 6}),
        ("JsimUserCube-v0", "jumanji.environments:RubiksCube", RubiksCube,
         lambda: {"generator": ScramblingGenerator(cube_size=2, num_scrambles_on_reset=5), "time_limit": 9}, {"time_limit": 3}),
    ]
    saved = dict(R._REGISTRY)
    try:
        for id_, ep, cls, mk, override in cases:
            R.register(id=id_, entry_point=ep, kwargs=mk())
            ref = trace(cls(**mk()))            # constructed directly from an equal, fresh set of arguments
            a = jumanji.make(id_)
            if trace(a) != ref:
                raise Violation("C18", "registry", "user_registration", "make_differs_from_registered_arguments", f"make({id_!r}) behaves differently from {cls.__name__}(**registered kwargs)")
            b = jumanji.make(id_, **override)
            trace(b)
            if trace(a) != ref:  # (asked before another plain make could repair the damage)
                raise Violation("C18", "registry", "user_registration", "make_with_override_changed_an_earlier_environment",
                                f"the environment made from {id_!r} before make({id_!r}, **{override}) changed its behaviour afterwards")
            c = jumanji.make(id_)
            if trace(c) != ref:
                raise Violation("C18", "registry", "user_registration", "make_with_override_changed_what_the_id_builds",
                                f"after make({id_!r}, **{override}) a plain make({id_!r}) no longer behaves like {cls.__name__}(**registered kwargs)")
            if trace(a) != ref:
                raise Violation("C18", "registry", "user_registration", "make_with_override_changed_an_earlier_environment",
                                f"the environment made from {id_!r} before make({id_!r}, **{override}) changed its behaviour afterwards")
            stats.check("user_registrations_with_object_kwargs")
    finally:
        R._REGISTRY.clear()
        R._REGISTRY.update(saved)


def order_compare(results: List[Dict[str, Any]], seed: int) -> List[Dict[str, Any]]:
    """Engine-side history check: what make(id) builds must not depend on which shipped ids were made earlier in the process
    (the 'shipped' task makes them in ascending, the 'shipped_rev' task - another process - in descending order)."""
    d = {r["task"]["cfg"]: r.get("shipped_digests") for r in results if r.get("shipped_digests")}
    a, b = d.get("shipped"), d.get("shipped_rev")
    if not a or not b:
        return []
    bad = sorted(i for i in a if i in b and a[i] != b[i])
    if not bad:
        return []
    return [{"property": "C18", "env": "registry", "config": {"id": "shipped_order"}, "seed": seed, "shard": 0, "run": 0, "monitor": "shipped",
             "class": "shipped_id_depends_on_make_order", "detail": f"the environment built by make({bad[0]!r}) behaves differently when the shipped ids are "
             f"made in ascending and in descending order (ids affected: {bad[:4]})", "ops": {"order": True}, "ops_unminimised": {}}]


def replay_order(v: Dict[str, Any], path: str) -> int:
    """Two fresh interpreters: ascending and descending order of the makes; the per-id digests must agree."""
    import json
    import os
    import subprocess
    import sys

    outs = []
    for rev in (False, True):
        code = ("import json,sys; from jsim.worker import _init_jax; _init_jax(); from jsim import regsim; from jsim.core import Stats; "
                "print('XD', json.dumps(regsim.shipped_check(Stats(), int(sys.argv[1]), reverse=(sys.argv[2] == '1'))))")
        p = subprocess.run([sys.executable, "-c", code, str(v["seed"]), "1" if rev else "0"], capture_output=True, text=True, env=dict(os.environ), timeout=3000)
        line = [ln for ln in p.stdout.splitlines() if ln.startswith("XD ")]
        if not line:
            print(f"replay: helper interpreter failed: {p.stderr[-400:]}")
            return 2
        outs.append(json.loads(line[0][3:]))
    bad = sorted(i for i in outs[0] if outs[0][i] != outs[1].get(i))
    if bad:
        print(f"VIOLATION property=C18 replay={path}")
        print(f"  monitor=shipped class=shipped_id_depends_on_make_order: ids {bad[:4]} behave differently in ascending and descending make order")
        return 1
    print(f"replay: no violation of class {v['monitor']}/{v['class']} reproduced from {path}")
    return 0


def replay(v: Dict[str, Any], path: str) -> int:
    if isinstance(v.get("ops"), dict) and v["ops"].get("order"):
        return replay_order(v, path)
    try:
        if v["config"]["id"].startswith("shipped"):
            shipped_check(Stats(), v["seed"], reverse=v["config"]["id"].endswith("_rev"))
            if not v["config"]["id"].endswith("_rev"):
                user_registration_check(Stats())
        else:
            execute(v["ops"], Stats())
    except Violation as got:
        if (got.monitor, got.cls) == (v["monitor"], v["class"]):
            print(f"VIOLATION property=C18 replay={path}")
            print(f"  monitor={got.monitor} class={got.cls}: {got.detail[:300]}")
            return 1
    print(f"replay: no violation of class {v['monitor']}/{v['class']} reproduced from {path}")
    return 0
