"""Command line: ./check run --property C04 --tier quick | ./check replay <file> | ./check setup"""
from __future__ import annotations

import argparse
import os
import sys


def main() -> int:
    ap = argparse.ArgumentParser(prog="check")
    sub = ap.add_subparsers(dest="cmd", required=True)
    r = sub.add_parser("run")
    r.add_argument("--property", required=True)
    r.add_argument("--tier", default=os.environ.get("VERIF_TIER", "quick"), choices=["quick", "thorough"])
    p = sub.add_parser("replay")
    p.add_argument("path")
    sub.add_parser("setup")
    d = sub.add_parser("selftest-determinism")
    d.add_argument("--seeds", type=int, default=4)
    d.add_argument("--props", default="")
    a = ap.parse_args()
    seed = int(os.environ.get("VERIF_SEED", "0") or 0)
    workers = int(os.environ.get("VERIF_WORKERS", "0") or 0) or min(16, os.cpu_count() or 4)
    budget = float(os.environ.get("VERIF_BUDGET_S", "1200") or 1200)
    if a.cmd == "setup":
        from jsim import setup

        return setup.main()
    if a.cmd == "run":
        from jsim import engine

        return engine.run_property(a.property, a.tier, seed, budget, workers)
    if a.cmd == "replay":
        from jsim import engine

        return engine.replay(a.path)
    if a.cmd == "selftest-determinism":
        from jsim import selftest

        return selftest.determinism(a.seeds, [x for x in a.props.split(",") if x], workers)
    return 2


if __name__ == "__main__":
    sys.exit(main())
