"""C17 (history-quantified part): RubiksCube and SlidingTilePuzzle along simulated move histories,
in lock-step with geometric reference models.

Cube model (conventions from the comment block of rubiks_cube/utils.py): axes x->RIGHT, y->UP,
z->FRONT. Per face (outward normal, direction of increasing column, direction of increasing row):
UP (+y,+x,+z) FRONT (+z,+x,-y) RIGHT (+x,-z,-y) BACK (-z,-x,-y) LEFT (-x,+z,-y) DOWN (-y,+x,-z).
A sticker is a (position, normal) pair; a move (face F, depth d, amount) rotates every sticker whose
cubie coordinate along F's normal is at depth d: amount 0 = clockwise seen from outside (-90 degrees
about the outward normal, right-hand rule), 1 = anticlockwise (+90), 2 = half turn.
"""
from __future__ import annotations

import time
from typing import Any, Dict, List, Tuple

import numpy as np

from jsim import util
from jsim.core import Stats, Violation, shrink

FACES = {  # normal, col_dir, row_dir
    0: ((0, 1, 0), (1, 0, 0), (0, 0, 1)),
    1: ((0, 0, 1), (1, 0, 0), (0, -1, 0)),
    2: ((1, 0, 0), (0, 0, -1), (0, -1, 0)),
    3: ((0, 0, -1), (-1, 0, 0), (0, -1, 0)),
    4: ((-1, 0, 0), (0, 0, 1), (0, -1, 0)),
    5: ((0, -1, 0), (1, 0, 0), (0, 0, -1)),
}
NORMAL_TO_FACE = {v[0]: k for k, v in FACES.items()}
_PERM_CACHE: Dict[Tuple[int, int, int, int], np.ndarray] = {}


def _rot(v: np.ndarray, u: np.ndarray, amount: int) -> np.ndarray:
    d = int(np.dot(u, v))
    if amount == 2:
        return 2 * d * u - v
    c = np.cross(u, v)
    return d * u + c if amount == 1 else d * u - c


def move_permutation(n: int, face: int, depth: int, amount: int) -> np.ndarray:
    """src[j] = flat index of the sticker that ends up at flat index j (new = old.reshape(-1)[src])."""
    key = (n, face, depth, amount)
    if key in _PERM_CACHE:
        return _PERM_CACHE[key]
    u = np.asarray(FACES[face][0])
    layer = (n - 1) - 2 * depth  # doubled cubie coordinate of the layer along u
    src = np.arange(6 * n * n)
    for f in range(6):
        nv, cv, rv = (np.asarray(x) for x in FACES[f])
        for r in range(n):
            for c in range(n):
                pos = nv * (n - 1) + cv * (2 * c - (n - 1)) + rv * (2 * r - (n - 1))
                # the sticker sits on the surface: its cubie coordinate along u is clipped to the cubie centre
                cubie = pos.copy()
                if int(np.dot(cubie, u)) != layer:
                    continue
                p2 = _rot(pos, u, amount)
                n2 = _rot(nv, u, amount)
                f2 = NORMAL_TO_FACE[tuple(int(x) for x in n2)]
                _, cv2, rv2 = (np.asarray(x) for x in FACES[f2])
                c2 = (int(np.dot(p2, cv2)) + (n - 1)) // 2
                r2 = (int(np.dot(p2, rv2)) + (n - 1)) // 2
                src[f2 * n * n + r2 * n + c2] = f * n * n + r * n + c
    _PERM_CACHE[key] = src
    return src


def model_move(cube: np.ndarray, action: List[int]) -> np.ndarray:
    n = cube.shape[-1]
    src = move_permutation(n, int(action[0]), int(action[1]), int(action[2]))
    return cube.reshape(-1)[src].reshape(cube.shape)


def model_solved(cube: np.ndarray) -> bool:
    return all(len(np.unique(cube[f])) == 1 for f in range(6))


def inverse_action(a: List[int]) -> List[int]:
    return [a[0], a[1], {0: 1, 1: 0, 2: 2}[int(a[2])]]


class CubeSys:
    def __init__(self, n: int, scr: int):
        import jax
        from jumanji.environments import RubiksCube
        from jumanji.environments.logic.rubiks_cube.generator import ScramblingGenerator
        from jumanji.environments.logic.rubiks_cube import utils as U

        self.jax, self.n, self.scr, self.U = jax, n, scr, U
        self.tl = 100000
        self.gen = ScramblingGenerator(cube_size=n, num_scrambles_on_reset=scr)
        self.env = RubiksCube(generator=self.gen, time_limit=self.tl)
        self.step = jax.jit(self.env.step)
        # the same cube under a user-written reward function (a constant shaping reward): whether an episode is over must
        # depend on the cube - the solved test - and not on what the reward function happens to pay
        from jumanji.environments.logic.rubiks_cube.reward import RewardFn

        class ConstantReward(RewardFn):
            def __call__(self, state: Any) -> Any:
                return jax.numpy.array(0.25, float)

        self.shaped_step = jax.jit(RubiksCube(generator=self.gen, time_limit=self.tl, reward_fn=ConstantReward()).step)
        self.name = "RubiksCube"
        idx = np.arange(6 * n * n).reshape(6, n, n)
        self.L1 = (idx // 100).astype(np.int8)
        self.L2 = (idx % 100).astype(np.int8)

    def spy_reset(self, key: int) -> Tuple[Any, List[int]]:
        """Eager reset with a recorder on the public seam generate_actions_for_scramble."""
        seen: List[np.ndarray] = []
        orig = self.gen.generate_actions_for_scramble

        def spy(*a: Any, **k: Any) -> Any:
            out = orig(*a, **k)
            seen.append(np.asarray(out))
            return out

        self.gen.generate_actions_for_scramble = spy  # type: ignore[method-assign]
        try:
            state, ts = self.env.reset(self.jax.random.PRNGKey(int(key)))
        finally:
            del self.gen.generate_actions_for_scramble
        flat = seen[-1].tolist() if seen else None
        return (state, ts), flat


class CubeRun:
    def __init__(self, cs: CubeSys, stats: Stats):
        self.cs, self.stats = cs, stats

    def fail(self, monitor: str, cls: str, detail: str) -> None:
        raise Violation("C17", "RubiksCube", monitor, cls, detail)

    def unflatten_model(self, flat: int) -> List[int]:
        n = self.cs.n
        fd, amount = divmod(int(flat), 3)
        face, depth = divmod(fd, n // 2)
        return [face, depth, amount]

    def execute(self, ops: Dict[str, Any]) -> None:
        cs, jnp = self.cs, self.cs.jax.numpy
        n = cs.n
        (state, ts), flat = cs.spy_reset(ops["key"])
        cube0 = np.asarray(state.cube)
        # (5) the reset cube is the model's replay of the scramble from the solved cube: reachable from the goal
        solved = np.stack([np.full((n, n), f, dtype=np.int8) for f in range(6)])
        if flat is None:
            self.stats.probe("scramble_seam_not_called")
        else:
            m = solved.copy()
            for fa in flat:
                m = model_move(m, self.unflatten_model(fa))
            self.stats.check("scramble_replays")
            if not np.array_equal(m, cube0):
                bad = np.argwhere(m != cube0)[0].tolist()
                self.fail("scramble_replay", "reset_cube_not_model_scramble_of_goal", f"reset(key={ops['key']}): cube differs from the geometric "
                          f"model's replay of the {len(flat)} scramble moves at {bad}: {int(cube0[tuple(bad)])} vs {int(m[tuple(bad)])}")
        counts = np.bincount(cube0.reshape(-1).astype(int), minlength=6)
        if not np.array_equal(counts, np.full(6, n * n)):
            self.fail("conservation", "reset_sticker_multiset", f"reset cube sticker counts {counts.tolist()}")
        states = {"real": state, "l1": state.replace(cube=jnp.asarray(cs.L1)), "l2": state.replace(cube=jnp.asarray(cs.L2))}
        model = {"real": cube0.copy(), "l1": cs.L1.copy(), "l2": cs.L2.copy()}

        def play(a: List[int], where: str) -> None:
            act = jnp.asarray(a, dtype=jnp.int32)
            # (6) flat and (face, depth, amount) encodings are mutually inverse
            f = cs.U.flatten_action(act, n)
            back = np.asarray(cs.U.unflatten_action(f, n)).tolist()
            if back != [int(x) for x in a]:
                self.fail("action_encoding", "unflatten_flatten_not_identity", f"unflatten(flatten({a})) = {back}")
            if int(np.asarray(cs.U.flatten_action(cs.U.unflatten_action(f, n), n))) != int(np.asarray(f)):
                self.fail("action_encoding", "flatten_unflatten_not_identity", f"flatten(unflatten({int(np.asarray(f))}))")
            if self.unflatten_model(int(np.asarray(f))) != [int(x) for x in a]:
                self.fail("action_encoding", "flat_index_not_documented_order", f"flatten({a}) = {int(np.asarray(f))}")
            for k in ("real", "l1", "l2"):
                ns, nts = cs.step(states[k], act)
                want = model_move(model[k], a)
                got = np.asarray(ns.cube)
                if not np.array_equal(got, want):
                    bad = np.argwhere(got != want)[0].tolist()
                    self.fail("geometric_model", "move_differs_from_physical_turn" + ("" if k == "real" else "_labelled"),
                              f"{where}: action {a} on the {'real' if k == 'real' else 'labelled (all stickers distinct)'} cube: sticker at {bad} is "
                              f"{int(got[tuple(bad)])}, the physical turn gives {int(want[tuple(bad)])}")
                if k == "real":
                    c2 = np.bincount(got.reshape(-1).astype(int), minlength=6)
                    if not np.array_equal(c2, counts):
                        self.fail("conservation", "sticker_multiset_changed", f"{where}: action {a}: counts {c2.tolist()}")
                    # (4) solved test / done / reward agree with the model's goal test
                    ms = model_solved(want)
                    last = int(np.asarray(nts.step_type)) == 2
                    sc = int(np.asarray(ns.step_count))
                    if last != (ms or sc >= cs.tl):
                        self.fail("goal_test", "done_disagrees_with_goal_test", f"{where}: action {a}: LAST={last} but model solved={ms}")
                    if float(np.asarray(nts.reward)) != (1.0 if ms else 0.0):
                        self.fail("goal_test", "reward_disagrees_with_goal_test", f"{where}: action {a}: reward {float(np.asarray(nts.reward))} "
                                  f"but model solved={ms}")
                    if ms:
                        self.stats.probe("solved_state_visited")
                    _, sts = cs.shaped_step(states[k], jnp.asarray(a, dtype=jnp.int32))
                    if (int(np.asarray(sts.step_type)) == 2) != (ms or sc >= cs.tl):
                        self.fail("goal_test", "done_depends_on_reward_function", f"{where}: action {a}: under a constant shaping reward "
                                  f"LAST={int(np.asarray(sts.step_type)) == 2} but model solved={ms}")
                    self.stats.check("shaped_reward_done_tests")
                states[k], model[k] = ns, want
            self.stats.steps += 1
            self.stats.check("moves_compared")
            self.stats.states.add(util.state_digest(util.to_np(states["real"].replace(step_count=0))))

        start = {k: model[k].copy() for k in model}
        for a in ops["word"]:
            play(a, "word")
        # (3) history laws
        for law in ops["laws"]:
            before = {k: model[k].copy() for k in model}
            kind, a = law[0], law[1]
            if kind == "half_equals_two_quarters":
                play([a[0], a[1], 2], "law")
                half = np.asarray(states["l1"].cube).copy(), np.asarray(states["l2"].cube).copy()
                play([a[0], a[1], 2], "law")  # undo (half turn is self-inverse)
                for k in model:
                    if not np.array_equal(np.asarray(states[k].cube), before[k]):
                        self.fail("group_laws", "half_turn_not_self_inverse", f"face {a[0]} depth {a[1]}")
                play([a[0], a[1], a[2] % 2], "law")
                play([a[0], a[1], a[2] % 2], "law")
                if not (np.array_equal(np.asarray(states["l1"].cube), half[0]) and np.array_equal(np.asarray(states["l2"].cube), half[1])):
                    self.fail("group_laws", "half_turn_differs_from_two_quarter_turns", f"face {a[0]} depth {a[1]} direction {a[2] % 2}")
                play([a[0], a[1], 2], "law")
            elif kind == "four_quarters":
                for _ in range(4):
                    play([a[0], a[1], a[2] % 2], "law")
            elif kind == "cw_then_acw":
                play([a[0], a[1], a[2] % 2], "law")
                play([a[0], a[1], 1 - a[2] % 2], "law")
            for k in model:
                if not np.array_equal(np.asarray(states[k].cube), before[k]):
                    self.fail("group_laws", f"{kind}_does_not_restore_cube", f"face {a[0]} depth {a[1]} amount {a[2]}")
            self.stats.check("laws_checked")
        if ops.get("undo"):
            for a in reversed(ops["word"]):
                play(inverse_action(a), "inverse word")
            for k in model:
                if not np.array_equal(np.asarray(states[k].cube), start[k]):
                    self.fail("group_laws", "word_times_inverse_word_not_identity", f"word of {len(ops['word'])} moves followed by its inverse word does "
                              "not restore the start state")
            self.stats.check("inverse_words_checked")
        rot = ops.get("whole_rotation")
        if rot and cs.n % 2 == 0:
            # turning every layer of one axis the same way (the layers counted from face f by +90 degrees, those counted
            # from the opposite face by -90 degrees; or all by 180) rotates the whole cube: an even cube has no fixed centres,
            # so a solved cube stays solved in another orientation - every goal test must accept it (checked move by move)
            f, half = int(rot[0]), bool(rot[1])
            opp = {0: 5, 5: 0, 1: 3, 3: 1, 2: 4, 4: 2}[f]
            for d in range(cs.n // 2):
                play([f, d, 2 if half else 1], "whole-cube rotation")
            for d in range(cs.n // 2):
                play([opp, d, 2 if half else 0], "whole-cube rotation")
            if model_solved(model["real"]):
                self.stats.probe("solved_in_rotated_orientation")
            self.stats.check("whole_cube_rotations")
        self.stats.runs += 0


def gen_cube_ops(rng: np.random.Generator, n: int) -> Dict[str, Any]:
    def rnd() -> List[int]:
        return [int(rng.integers(0, 6)), int(rng.integers(0, n // 2)), int(rng.integers(0, 3))]
    word = [rnd() for _ in range(int(rng.integers(3, 30)))]
    laws = [[str(rng.choice(["half_equals_two_quarters", "four_quarters", "cw_then_acw"])), rnd()] for _ in range(int(rng.integers(0, 4)))]
    ops = {"kind": "cube", "key": int(rng.integers(0, 2**31 - 1)), "word": word, "laws": laws, "undo": bool(rng.random() < 0.7)}
    r = rng.random()
    if n % 2 == 0 and r < 0.5:
        ops["whole_rotation"] = [int(rng.integers(0, 6)), bool(rng.random() < 0.3)]
    return ops


# ---- sliding tile puzzle -------------------------------------------------------------------------
TILE_MOVES = [(-1, 0), (0, 1), (1, 0), (0, -1)]  # up, right, down, left (of the blank)


class TileSys:
    def __init__(self, g: int, mv: int):
        import jax
        from jumanji.environments import SlidingTilePuzzle
        from jumanji.environments.logic.sliding_tile_puzzle.generator import RandomWalkGenerator

        self.jax, self.g = jax, g
        self.tl = 100000
        self.env = SlidingTilePuzzle(generator=RandomWalkGenerator(grid_size=g, num_random_moves=mv), time_limit=self.tl)
        self.step = jax.jit(self.env.step)
        self.reset = jax.jit(self.env.reset)
        # the same puzzle under the sparse reward: its reward is the library's second "solved test" (1 iff the move
        # produced the goal configuration)
        from jumanji.environments.logic.sliding_tile_puzzle.reward import SparseRewardFn

        self.sparse_step = jax.jit(SlidingTilePuzzle(generator=RandomWalkGenerator(grid_size=g, num_random_moves=mv), time_limit=self.tl,
                                                     reward_fn=SparseRewardFn()).step)
        self.name = "SlidingTilePuzzle"
        self.goal = (np.arange(1, g * g + 1) % (g * g)).reshape(g, g)


def tile_solvable(p: np.ndarray, goal: np.ndarray) -> bool:
    """Reachable from the goal iff the parity of the permutation (blank included) equals the parity of
    the blank's Manhattan distance to its goal cell (every move is one transposition and one blank step)."""
    g = p.shape[0]
    pos_goal = {int(v): i for i, v in enumerate(goal.reshape(-1))}
    perm = [pos_goal[int(v)] for v in p.reshape(-1)]
    seen = [False] * len(perm)
    transpositions = 0
    for i in range(len(perm)):
        if not seen[i]:
            j, L = i, 0
            while not seen[j]:
                seen[j] = True
                j = perm[j]
                L += 1
            transpositions += L - 1
    b = np.argwhere(p == 0)[0]
    bg = np.argwhere(goal == 0)[0]
    dist = int(abs(b[0] - bg[0]) + abs(b[1] - bg[1]))
    return transpositions % 2 == dist % 2


class TileRun:
    def __init__(self, ts: TileSys, stats: Stats):
        self.ts, self.stats = ts, stats

    def fail(self, monitor: str, cls: str, detail: str) -> None:
        raise Violation("C17", "SlidingTilePuzzle", monitor, cls, detail)

    def execute(self, ops: Dict[str, Any]) -> None:
        t, jnp = self.ts, self.ts.jax.numpy
        g = t.g
        state, ts0 = t.reset(t.jax.random.PRNGKey(int(ops["key"])))
        p = np.asarray(state.puzzle).copy()
        if sorted(p.reshape(-1).tolist()) != list(range(g * g)):
            self.fail("conservation", "reset_tile_multiset", f"reset puzzle {p.tolist()}")
        if not tile_solvable(p, t.goal):
            self.fail("solvability", "reset_puzzle_not_reachable_from_goal", f"reset(key={ops['key']}) puzzle {p.tolist()} fails the parity test")
        self.stats.check("solvability_tests")
        start = p.copy()
        played: List[Tuple[int, bool]] = []

        def play(a: int, where: str) -> bool:
            nonlocal state, p
            b = np.argwhere(p == 0)[0]
            eb = np.asarray(state.empty_tile_position)
            if not np.array_equal(b, eb):
                self.fail("tile_model", "blank_position_disagrees_with_puzzle", f"{where}: empty_tile_position {eb.tolist()} but the 0 tile is at {b.tolist()}")
            nb = b + np.asarray(TILE_MOVES[a])
            legal = bool(np.all(nb >= 0) and np.all(nb < g))
            want = p.copy()
            if legal:
                want[tuple(b)], want[tuple(nb)] = want[tuple(nb)], want[tuple(b)]
            ns, nts = t.step(state, jnp.asarray(a, dtype=jnp.int32))
            got = np.asarray(ns.puzzle)
            if not np.array_equal(got, want):
                self.fail("tile_model", "move_differs_from_blank_swap", f"{where}: action {a} from blank {b.tolist()}: puzzle {got.tolist()} expected {want.tolist()}")
            if sorted(got.reshape(-1).tolist()) != list(range(g * g)):
                self.fail("conservation", "tile_multiset_changed", f"{where}: action {a}")
            solved = bool(np.array_equal(want, t.goal))
            last = int(np.asarray(nts.step_type)) == 2
            if last != (solved or int(np.asarray(ns.step_count)) >= t.tl):
                self.fail("goal_test", "done_disagrees_with_goal_test", f"{where}: action {a}: LAST={last} but puzzle == goal is {solved}; puzzle {want.tolist()}")
            if solved:
                self.stats.probe("solved_state_visited")
            _, sts = t.sparse_step(state, jnp.asarray(a, dtype=jnp.int32))
            sr = float(np.asarray(sts.reward))
            if (sr == 1.0) != solved or sr not in (0.0, 1.0):
                self.fail("goal_test", "sparse_reward_disagrees_with_goal_test", f"{where}: action {a}: sparse reward {sr} but the move "
                          f"{'produced' if solved else 'did not produce'} the goal configuration; puzzle after the move {want.tolist()}")
            self.stats.check("sparse_solved_tests")
            if not tile_solvable(got, t.goal):
                self.fail("solvability", "state_not_reachable_from_goal", f"{where}: puzzle {got.tolist()} fails the parity test")
            state, p = ns, want
            self.stats.steps += 1
            self.stats.check("moves_compared")
            self.stats.states.add(util.state_digest(util.to_np(state.replace(step_count=0))))
            return legal

        for a in ops["word"]:
            played.append((int(a), play(int(a), "word")))
        for a in ops["laws"]:
            before = p.copy()
            if play(int(a), "law"):
                play((int(a) + 2) % 4, "law")
                if not np.array_equal(p, before):
                    self.fail("group_laws", "opposite_moves_do_not_cancel", f"move {a} then {(int(a) + 2) % 4}")
                self.stats.check("laws_checked")
        if ops.get("undo"):
            for a, legal in reversed(played):
                if legal:
                    play((a + 2) % 4, "inverse word")
            if not np.array_equal(p, start):
                self.fail("group_laws", "word_times_inverse_word_not_identity", "inverse word does not restore the start puzzle")
            self.stats.check("inverse_words_checked")


def gen_tile_ops(rng: np.random.Generator) -> Dict[str, Any]:
    return {"kind": "tile", "key": int(rng.integers(0, 2**31 - 1)), "word": [int(x) for x in rng.integers(0, 4, size=int(rng.integers(3, 60)))],
            "laws": [int(x) for x in rng.integers(0, 4, size=int(rng.integers(0, 4)))], "undo": bool(rng.random() < 0.7)}


# ---- task plumbing ----------------------------------------------------------------------------------
def make_sys(cfg: Dict[str, Any]) -> Any:
    return CubeSys(cfg["n"], cfg["scr"]) if cfg["puzzle"] == "cube" else TileSys(cfg["g"], cfg["mv"])


def execute(sysm: Any, ops: Dict[str, Any], stats: Stats) -> None:
    (CubeRun(sysm, stats) if ops["kind"] == "cube" else TileRun(sysm, stats)).execute(ops)


def run_task(prop: Any, task: Dict[str, Any]) -> Dict[str, Any]:
    cfg = task["cfg"]
    t0 = time.time()
    from jsim.core import construct

    sysm = construct(make_sys, cfg)
    stats = Stats()
    digests: List[int] = []
    nontrivial: List[bool] = []
    samples: List[Any] = []
    violations: List[Dict[str, Any]] = []
    seen = set()
    n_runs = task.get("runs")
    deadline = t0 + task["wall"] if task.get("wall") else None
    i = 0
    while True:
        if n_runs is not None and i >= n_runs:
            break
        if deadline is not None and time.time() > deadline and i >= 2:
            break
        rng = util.sub_rng(task["seed"], "C17", cfg["id"], task["shard"], i)
        ops = gen_cube_ops(rng, cfg["n"]) if cfg["puzzle"] == "cube" else gen_tile_ops(rng)
        s0 = stats.steps
        try:
            execute(sysm, ops, stats)
        except Violation as v:
            key = (v.monitor, v.cls)
            if key not in seen and len(violations) < 6:
                seen.add(key)

                def still(cand: List[Any]) -> bool:
                    o = dict(ops)
                    o["word"] = [c for c in cand[1:]]
                    try:
                        execute(sysm, o, Stats())
                    except Violation as v2:
                        return (v2.monitor, v2.cls) == key
                    return False

                small = dict(ops)
                small["word"] = shrink([["reset"]] + list(ops["word"]), still, budget=30)[1:]
                detail = v.detail
                try:
                    execute(sysm, small, Stats())
                    small = ops
                except Violation as v3:
                    detail = v3.detail
                violations.append({"property": "C17", "env": sysm.name, "config": cfg, "seed": task["seed"], "shard": task["shard"], "run": i,
                                   "monitor": v.monitor, "class": v.cls, "detail": detail, "ops": small, "ops_unminimised": ops})
            stats.probe("runs_ending_in_violation")
            i += 1
            continue
        stats.runs += 1
        digests.append(int(util.crc(util.canon(ops)) | (util.crc(cfg["id"]) << 32)))
        nontrivial.append(bool(stats.steps - s0 >= 3))
        if len(samples) < 2:
            samples.append({"config": cfg["id"], "ops": {k: (v[:8] if isinstance(v, list) else v) for k, v in ops.items()}})
        i += 1
    return {
        "task": {"prop": "C17", "env": sysm.name, "cfg": cfg["id"], "shard": task["shard"]},
        "runs": stats.runs, "attempted": i, "steps": stats.steps, "faults": stats.faults, "policies": {},
        "transports": {"JIT": stats.steps}, "probes": stats.probes, "checks": stats.checks,
        "states": np.fromiter(stats.states, dtype=np.uint64, count=len(stats.states)).tobytes(), "n_states": len(stats.states),
        "digests": digests, "nontrivial": nontrivial, "samples": samples, "violations": violations, "det_ok": None,
        "wall": time.time() - t0,
    }


def replay(v: Dict[str, Any], path: str) -> int:
    from jsim.core import construct

    sysm = construct(make_sys, v["config"])
    if v.get("construction_only"):
        return 0
    try:
        execute(sysm, v["ops"], Stats())
    except Violation as got:
        if (got.monitor, got.cls) == (v["monitor"], v["class"]):
            print(f"VIOLATION property=C17 replay={path}")
            print(f"  env={v['env']} config={v['config']['id']} monitor={got.monitor} class={got.cls}: {got.detail[:300]}")
            return 1
    print(f"replay: no violation of class {v['monitor']}/{v['class']} reproduced from {path}")
    return 0
