"""Determinism self-test: the same VERIF_SEED must give the same event-log digest in fresh
interpreters, under another PYTHONHASHSEED and another worker count."""
from __future__ import annotations

import hashlib
import json
import os
import subprocess
import sys
from typing import Any, Dict, List

from jsim import util

ROTATION = [("C01", "Snake,TSP"), ("C02", "Knapsack,Maze"), ("C03", "Game2048,Connector"), ("C04", "Cleaner,JobShop"), ("C05", "Sudoku,Sokoban"),
            ("C06", "BinPack,CVRP"), ("C07", "PacMan,LevelBasedForaging"), ("C08", "FlatPack,Minesweeper"), ("C09", "Tetris,GraphColoring"),
            ("C11", "MMST,RubiksCube"), ("C12", "RobotWarehouse,MultiCVRP"), ("C13", "SlidingTilePuzzle,Snake"), ("C14", "Knapsack,Cleaner"),
            ("C15", "TSP,Connector"), ("C17", ""), ("C18", "")]


def digest_of_results(results: List[Dict[str, Any]]) -> str:
    """SHA-256 over the canonical JSON of every run digest, counter and verdict (no wall-clock data)."""
    rows = []
    for r in sorted(results, key=lambda r: util.canon(r["task"])):
        if "harness_error" in r:
            rows.append({"task": r["task"], "error": True})
            continue
        rows.append({"task": r["task"], "digests": r["digests"], "steps": r["steps"], "runs": r["runs"], "faults": r["faults"],
                     "probes": r["probes"], "checks": r["checks"], "n_states": r["n_states"],
                     "violations": [(v["monitor"], v["class"], util.canon(v["ops"])) for v in r["violations"]]})
    return hashlib.sha256(util.canon(rows).encode()).hexdigest()


def determinism(n_seeds: int, only: List[str], workers: int) -> int:
    bad = 0
    total = 0
    for k in range(n_seeds):
        for pid, envs_ in ROTATION:
            if only and pid not in only:
                continue
            outs = []
            for hs, w in (("0", str(workers)), ("12345", "1" if pid in ("C17", "C18") else "2")):
                env = dict(os.environ)
                env.update({"VERIF_SEED": str(1000 + k), "PYTHONHASHSEED": hs, "VERIF_WORKERS": w, "VERIF_ENVS": envs_, "VERIF_RUNS": "3",
                            "JSIM_DIGEST_ONLY": "1", "JSIM_OUT": "/tmp/jsim-selftest"})
                p = subprocess.run([os.path.join(os.environ.get("JSIM_ROOT", "/verif"), "check"), "run", "--property", pid, "--tier", "quick"], capture_output=True, text=True, env=env, timeout=1800)
                line = [ln for ln in p.stdout.splitlines() if ln.startswith("DIGEST ")]
                outs.append(line[0].split()[1] if line else f"missing(rc={p.returncode}): {p.stderr[-300:]}")
            total += 1
            ok = outs[0] == outs[1] and not outs[0].startswith("missing")
            print(f"selftest-determinism seed={1000 + k} {pid} [{envs_}] {'OK' if ok else 'MISMATCH'} {outs[0][:16]} {outs[1][:16]}", flush=True)
            bad += 0 if ok else 1
    print(f"selftest-determinism: {total} (property, env-set, seed) triples, each run twice in fresh interpreters "
          f"(PYTHONHASHSEED 0 vs 12345, worker counts differ): {bad} mismatches")
    return 0 if bad == 0 else 2
