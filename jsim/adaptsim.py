"""C15: the stateful adapters (gym, dm_env, multi-to-single) driven by op sequences and shadowed by
the native API with the documented key schedule (key = PRNGKey(seed); per reset: k, key = split(key)).

ops: ["seed", n] | ["reset", n|None] | ["step", "sample"] | ["step", action] | ["reseed_replay"]
faults: RESEED (seed()/reset(seed=) in the middle of an episode), MID_RESET (reset() mid-episode).
"""
from __future__ import annotations

import time
from typing import Any, Dict, List, Optional, Tuple

import numpy as np

from jsim import util
from jsim.core import Stats, Violation, shrink


def obs_to_dict(obs: Any) -> Any:
    """Independent flattening of a native observation into nested dicts of NumPy arrays."""
    if hasattr(obs, "_asdict"):
        return {k: obs_to_dict(v) for k, v in obs._asdict().items()}
    if hasattr(obs, "__dataclass_fields__"):
        return {k: obs_to_dict(getattr(obs, k)) for k in obs.__dataclass_fields__}
    return np.asarray(obs)


def dict_diff(a: Any, b: Any, path: str = "obs") -> List[str]:
    if isinstance(a, dict) or isinstance(b, dict):
        if not (isinstance(a, dict) and isinstance(b, dict)) or sorted(a) != sorted(b):
            return [f"{path}: structure {sorted(a) if isinstance(a, dict) else type(a).__name__} vs {sorted(b) if isinstance(b, dict) else type(b).__name__}"]
        out: List[str] = []
        for k in sorted(a):
            out += dict_diff(a[k], b[k], f"{path}.{k}")
        return out
    a, b = np.asarray(a), np.asarray(b)
    if a.shape != b.shape or not util.close(a, b):
        return [f"{path}: {a.reshape(-1)[:4].tolist()} vs {b.reshape(-1)[:4].tolist()} (shapes {a.shape}/{b.shape})"]
    return []


def draw_seed(rng: np.random.Generator) -> int:
    """Seeds are biased towards boundary values (0 is falsy in Python, 2**31-1 is the int32 edge)."""
    r = rng.random()
    if r < 0.3:
        return 0
    if r < 0.4:
        return 1
    if r < 0.45:
        return 2**31 - 1
    return int(rng.integers(0, 2**31 - 1))


def legal_action_from_obs(adapter: Any, env: Any, obs: Any, rng: np.random.Generator) -> Any:
    m = adapter.env_mask(obs) if adapter.mask_mode else None
    if m is None or not m.any() or rng.random() < 0.2:
        return adapter.inspec_action(env, rng)
    return adapter.pick(m, rng)[0]


class AdaptSys:
    def __init__(self, adapter: Any, cfg: Dict[str, Any], kind: str, aggregators: str, seed0: int = 0):
        import jax
        import jax.numpy as jnp
        from jumanji import wrappers

        self.jax, self.jnp = jax, jnp
        self.adapter, self.cfg, self.kind = adapter, cfg, kind
        base = adapter.build(cfg)
        self.base = base
        self.multi = tuple(base.reward_spec.shape) != ()
        self.agg = None
        env = base
        if self.multi or kind == "m2s":
            if aggregators == "custom":
                self.agg = (jnp.mean, jnp.min)
                env = wrappers.MultiToSingleWrapper(base, reward_aggregator=jnp.mean, discount_aggregator=jnp.min)
            else:
                self.agg = (jnp.sum, jnp.max)
                env = wrappers.MultiToSingleWrapper(base)
        self.env = env  # what the adapter under test wraps
        self.native_reset = jax.jit(base.reset)
        self.native_step = jax.jit(base.step)
        self.dtype = base.action_spec.dtype
        # the seed / key handed to the constructor is part of the documented key schedule: it varies per task and
        # the first run of a task uses the freshly constructed adapter without any re-seeding
        self.seed0 = int(seed0)
        if kind in ("gym", "dm"):
            # OTHER_INSTANCE: an adapter of the same kind around *another configuration* of the same environment class is built
            # and used first in this process; the adapter under test must not share anything with it (module-level caches of
            # compiled functions, class attributes)
            others = [c for c in adapter.configs() if c["id"] != cfg["id"] and not c.get("clock") and not c.get("props")]
            if others:
                try:
                    oenv = adapter.build(others[0])
                    if tuple(oenv.reward_spec.shape) != ():
                        oenv = wrappers.MultiToSingleWrapper(oenv)
                    if kind == "gym":
                        d = wrappers.JumanjiToGymWrapper(oenv, seed=7)
                        d.reset()
                        d.step(np.asarray(oenv.action_spec.generate_value()))
                    else:
                        d = wrappers.JumanjiToDMEnvWrapper(oenv, key=jax.random.PRNGKey(7))
                        d.reset()
                        d.step(np.asarray(oenv.action_spec.generate_value()))
                    self.other_instance = others[0]["id"]
                except Exception:  # noqa: BLE001  (the decoy is best effort: it is never judged)
                    self.other_instance = None
        if kind == "gym":
            self.sut = wrappers.JumanjiToGymWrapper(env, seed=self.seed0)
        elif kind == "dm":
            self.sut = wrappers.JumanjiToDMEnvWrapper(env, key=jax.random.PRNGKey(self.seed0))
            self.dm_obs_spec = self.sut.observation_spec()
        else:
            self.m2s_reset = jax.jit(env.reset)
            self.m2s_step = jax.jit(env.step)
        self.shadow_key = jax.random.PRNGKey(self.seed0)
        self.fresh = True


class AdaptRun:
    def __init__(self, a: AdaptSys, stats: Stats):
        self.a, self.stats = a, stats
        self.state: Any = None       # native shadow state
        self.done = True
        self.obs_np: Any = None      # last native observation (np)
        self.m2s_state: Any = None
        self.since_seed: List[List[Any]] = []
        self.outputs: List[Any] = []
        self.seed0: Optional[int] = None

    def fail(self, monitor: str, cls: str, detail: str) -> None:
        raise Violation("C15", self.a.adapter.name, monitor, cls, detail)

    # ---- expected values ---------------------------------------------------------------------
    def agg(self, ts: Any) -> Tuple[Any, Any]:
        r, d = np.asarray(ts.reward), np.asarray(ts.discount)
        if self.a.agg is None:
            return r, d
        fr = {"sum": np.sum, "mean": np.mean, "max": np.max, "min": np.min, "amax": np.max, "amin": np.min}
        return fr[self.a.agg[0].__name__](r), fr[self.a.agg[1].__name__](d)

    def shadow_reset(self) -> Any:
        a = self.a
        k, a.shadow_key = a.jax.random.split(a.shadow_key)
        self.state, ts = a.native_reset(k)
        self.done = False
        ts = util.to_np(ts)
        self.obs_np = ts.observation
        return ts

    def shadow_step(self, action: Any) -> Any:
        a = self.a
        self.state, ts = a.native_step(self.state, a.jnp.asarray(action, dtype=a.dtype))
        ts = util.to_np(ts)
        self.obs_np = ts.observation
        if int(ts.step_type) == 2:
            self.done = True
        return ts

    # ---- ops -------------------------------------------------------------------------------------
    def op_seed(self, n: int, record: bool = True) -> None:
        a = self.a
        if a.kind != "gym":
            return
        a.sut.seed(int(n))
        a.shadow_key = a.jax.random.PRNGKey(int(n))
        if not self.done:
            self.stats.inc(self.stats.faults, "RESEED")
        if record:
            self.seed0, self.since_seed, self.outputs = int(n), [], []

    def op_reset(self, seed: Optional[int], record: bool = True) -> Any:
        a = self.a
        if not self.done:
            self.stats.inc(self.stats.faults, "MID_RESET" if seed is None else "RESEED")
        out: Any
        if a.kind == "gym":
            self.stats.probe("gym_reset_plain" if seed is None else ("gym_reset_seed_zero" if int(seed) == 0 else "gym_reset_seed_nonzero"))
            if seed is not None:
                a.shadow_key = a.jax.random.PRNGKey(int(seed))
                if record:
                    self.seed0, self.since_seed, self.outputs = int(seed), [], []
            obs, info = a.sut.reset(seed=None if seed is None else int(seed))
            ts = self.shadow_reset()
            self.check_gym_obs("reset", obs, ts)
            d = dict_diff(info if info else {}, {k: obs_to_dict(v) for k, v in (ts.extras or {}).items()}, "info")
            if d:
                self.fail("gym_vs_native", "reset_info_differs", f"reset: {d[:2]}")
            out = (util.tree_digest(obs),)
        elif a.kind == "dm":
            dts = a.sut.reset()
            ts = self.shadow_reset()
            if dts.reward is not None or dts.discount is not None or int(dts.step_type) != 0:
                self.fail("dm_env_vs_native", "first_timestep_not_bare", f"reset returned step_type={dts.step_type} reward={dts.reward} discount={dts.discount}")
            self.check_dm_obs("reset", dts.observation, ts)
            out = (util.tree_digest(util.to_np(dts.observation)),)
        else:
            key = int(seed if seed is not None else 0)
            k = a.jax.random.PRNGKey(key)
            self.m2s_state, mts = a.m2s_reset(k)
            self.state, ts = a.native_reset(k)
            self.done = False
            ts = util.to_np(ts)
            self.obs_np = ts.observation
            self.check_m2s("reset", util.to_np(self.m2s_state), util.to_np(mts), util.to_np(self.state), ts)
            out = ()
        self.stats.check("resets_compared")
        if record:
            self.since_seed.append(["reset", None])
            self.outputs.append(out)
        return out

    def op_step(self, action: Any, record: bool = True) -> Any:
        a = self.a
        if self.done or self.state is None:
            return None
        if isinstance(action, str):  # "sample:<seed>"
            n = int(action.split(":")[1])
            if a.kind == "gym":
                a.sut.action_space.seed(n)
                act = a.sut.action_space.sample()
                try:
                    a.base.action_spec.validate(a.jnp.asarray(act))
                except Exception as e:  # noqa: BLE001
                    self.fail("gym_vs_native", "sampled_action_not_valid_native_action", f"action_space.sample() = {np.asarray(act).tolist()} rejected by "
                              f"action_spec.validate: {str(e)[:160]}")
                a.sut.action_space.seed(n)
                act2 = a.sut.action_space.sample()
                if not np.array_equal(np.asarray(act), np.asarray(act2)):
                    self.fail("gym_vs_native", "seeded_sample_not_reproducible", f"action_space.seed({n}); sample() gave {act} then {act2}")
                self.stats.check("sampled_actions_validated")
                action = np.asarray(act).tolist()
            else:
                action = a.adapter.inspec_action(a.base, util.sub_rng(n, "c15sample"))
        out: Any
        if a.kind == "gym":
            obs, reward, term, trunc, info = a.sut.step(np.asarray(action))
            ts = self.shadow_step(action)
            r, d = self.agg(ts)
            self.check_gym_obs("step", obs, ts)
            if not isinstance(reward, float) or abs(reward - float(r)) > 1e-5 * max(1.0, abs(float(r))):
                self.fail("gym_vs_native", "reward_differs", f"step: gym reward {reward!r} vs native {float(r)}")
            if bool(term) != bool(float(d) == 0.0):
                self.fail("gym_vs_native", "terminated_flag_wrong", f"step: terminated={term} but native discount={float(d)} (LAST={int(ts.step_type) == 2})")
            if bool(trunc) != bool(int(ts.step_type) == 2):
                self.fail("gym_vs_native", "truncated_flag_wrong", f"step: truncated={trunc} but native step_type={int(ts.step_type)} (discount={float(d)})")
            dd = dict_diff(info if info else {}, {k: obs_to_dict(v) for k, v in (ts.extras or {}).items()}, "info")
            if dd:
                self.fail("gym_vs_native", "info_differs", f"step: {dd[:2]}")
            self.stats.probe(f"gym_terminated{int(bool(term))}_truncated{int(bool(trunc))}")
            out = (util.tree_digest(obs), float(reward), bool(term), bool(trunc))
        elif a.kind == "dm":
            dts = a.sut.step(np.asarray(action))
            ts = self.shadow_step(action)
            r, d = self.agg(ts)
            if int(dts.step_type) != int(ts.step_type):
                self.fail("dm_env_vs_native", "step_type_differs", f"step: {int(dts.step_type)} vs native {int(ts.step_type)}")
            if dts.reward is None or not util.close(dts.reward, r):
                self.fail("dm_env_vs_native", "reward_differs", f"step: {dts.reward} vs native {r}")
            if dts.discount is None or not util.close(dts.discount, d):
                self.fail("dm_env_vs_native", "discount_differs", f"step: {dts.discount} vs native {d}")
            self.check_dm_obs("step", dts.observation, ts)
            if int(ts.step_type) == 2:
                self.stats.probe("dm_last_discount_zero" if float(np.max(d)) == 0.0 else "dm_last_discount_nonzero")
            out = (util.tree_digest(util.to_np(dts.observation)), float(np.sum(r)))
        else:
            self.m2s_state, mts = a.m2s_step(self.m2s_state, a.jnp.asarray(action, dtype=a.dtype))
            ts = self.shadow_step(action)
            self.check_m2s("step", util.to_np(self.m2s_state), util.to_np(mts), util.to_np(self.state), ts)
            dv = np.asarray(ts.discount)
            if int(ts.step_type) == 1 and dv.size > 1 and dv.min() == 0.0:
                self.stats.probe("m2s_mid_step_with_some_agent_discount_zero")
            out = ()
        self.stats.steps += 1
        self.stats.check("steps_compared")
        self.stats.states.add(util.state_digest(util.to_np(self.state)))
        if record:
            self.since_seed.append(["step", util.jsonable(action)])
            self.outputs.append(out)
        return out

    def op_reseed_replay(self) -> None:
        """Re-seeding with the same seed and replaying the same ops reproduces the same outputs."""
        a = self.a
        if a.kind != "gym" or self.seed0 is None or not self.since_seed:
            return
        ops, outs = list(self.since_seed), list(self.outputs)
        self.op_seed(self.seed0, record=False)
        self.done = True
        for op, want in zip(ops, outs):
            got = self.op_reset(None, record=False) if op[0] == "reset" else self.op_step(op[1], record=False)
            if got != want:
                self.fail("gym_vs_native", "reseed_does_not_reproduce_episode", f"after seed({self.seed0}) the replayed op {op} returned {got} instead of {want}")
        self.stats.check("reseed_replays")

    # ---- comparisons -------------------------------------------------------------------------------
    def hold(self, obs: Any) -> None:
        """What an adapter returned belongs to the caller: later calls must not overwrite it (shared buffers).
        The last few returned observations are kept and re-digested before every later op."""
        held = self.__dict__.setdefault("_held", [])
        held.append((obs, util.tree_digest(util.to_np(obs))))
        del held[:-6]

    def check_held(self, where: str) -> None:
        for k, (obs, dg) in enumerate(self.__dict__.get("_held", [])):
            if util.tree_digest(util.to_np(obs)) != dg:
                self.fail("returned_value_integrity", "observation_overwritten_by_later_call", f"{where}: an observation returned "
                          f"{len(self._held) - k} calls ago changed value afterwards (buffers shared between returned observations)")
        self.stats.check("held_observations_rechecked")

    def check_gym_obs(self, where: str, obs: Any, ts: Any) -> None:
        self.check_held(where)
        self.hold(obs)
        d = dict_diff(obs, obs_to_dict(ts.observation))
        if d:
            self.fail("gym_vs_native", "observation_differs", f"{where}: {d[:2]}")
        try:
            inside = self.a.sut.observation_space.contains(obs)
        except Exception as e:  # noqa: BLE001
            inside = False
            d = [repr(e)[:100]]
        if not inside:
            bad = []
            sp = self.a.sut.observation_space
            if hasattr(sp, "spaces") and isinstance(obs, dict):
                bad = [k for k in sp.spaces if k in obs and not sp.spaces[k].contains(obs[k])]
            self.fail("gym_vs_native", "observation_not_in_space:" + ",".join(sorted(bad)), f"{where}: observation not contained in "
                      f"observation_space (fields {bad})")
        self.stats.check("gym_space_membership")

    def check_dm_obs(self, where: str, obs: Any, ts: Any) -> None:
        self.check_held(where)
        self.hold(obs)
        d = dict_diff(obs_to_dict(util.to_np(obs)), obs_to_dict(ts.observation))
        if d:
            self.fail("dm_env_vs_native", "observation_differs", f"{where}: {d[:2]}")
        spec = self.a.dm_obs_spec

        def walk(sp: Any, val: Any, path: str) -> None:
            if isinstance(sp, dict):
                for k in sp:
                    child = val[k] if isinstance(val, dict) else getattr(val, k)
                    walk(sp[k], child, f"{path}.{k}")
                return
            try:
                sp.validate(np.asarray(val))
            except Exception as e:  # noqa: BLE001
                self.fail("dm_env_vs_native", f"observation_rejected_by_dm_spec:{path}", f"{where}: {path}: {str(e)[:160]}")

        walk(spec, util.to_np(obs), "obs")
        self.stats.check("dm_spec_membership")

    def check_m2s(self, where: str, ms: Any, mts: Any, ns: Any, nts: Any) -> None:
        r, d = self.agg(nts)
        if util.tree_diff(ms, ns):
            self.fail("multi_to_single", "state_changed", f"{where}: {util.tree_diff(ms, ns)[:2]}")
        if np.asarray(mts.reward).shape != () or not util.close(mts.reward, r):
            self.fail("multi_to_single", "reward_not_aggregated", f"{where}: {np.asarray(mts.reward).tolist()} vs aggregator(native) {np.asarray(r).tolist()}")
        if np.asarray(mts.discount).shape != () or not util.close(mts.discount, d):
            self.fail("multi_to_single", "discount_not_aggregated", f"{where}: {np.asarray(mts.discount).tolist()} vs aggregator(native) {np.asarray(d).tolist()}")
        if int(mts.step_type) != int(nts.step_type):
            self.fail("multi_to_single", "step_type_changed", f"{where}")
        if util.tree_diff(mts.observation, nts.observation):
            self.fail("multi_to_single", "observation_changed", f"{where}: {util.tree_diff(mts.observation, nts.observation)[:2]}")
        if util.tree_diff(dict(mts.extras or {}), dict(nts.extras or {})):
            self.fail("multi_to_single", "extras_changed", f"{where}")
        self.stats.check("m2s_compared")


def apply_op(run: AdaptRun, op: List[Any]) -> None:
    if op[0] == "seed":
        run.op_seed(op[1])
    elif op[0] == "reset":
        run.op_reset(op[1])
    elif op[0] == "step":
        run.op_step(op[1])
    elif op[0] == "reseed_replay":
        run.op_reseed_replay()


def generate_and_run(a: AdaptSys, rng: np.random.Generator, stats: Stats) -> Tuple[List[List[Any]], AdaptRun]:
    run = AdaptRun(a, stats)
    ops: List[List[Any]] = []

    def emit(op: List[Any]) -> None:
        op = util.jsonable(op)
        ops.append(op)
        apply_op(run, op)

    try:
        if a.kind == "gym":
            r0 = rng.random()
            if r0 < 0.34:
                emit(["seed", draw_seed(rng)])
                emit(["reset", None])
            elif r0 < 0.67:
                emit(["reset", draw_seed(rng)])
            else:
                emit(["reset", None])  # the key stream the constructor's seed started (or the last rewind re-seeded)
        elif a.kind == "dm":
            emit(["reset", None])
        else:
            emit(["reset", int(rng.integers(0, 2**31 - 1))])
        # a third of the runs is long and purposeful (the environment's completion-driving policy reads the shadow state): late
        # and rarely reached states - a finished instance, the far side of a maze - have observations of their own to relay
        deep = bool(rng.random() < 0.33)
        n = int(rng.integers(30, 70)) if deep else int(rng.integers(8, 40))
        fault_p = 0.0 if deep else float(rng.choice([0.0, 0.03, 0.1]))
        for _ in range(n):
            if run.done:
                emit(["reset", None if a.kind != "m2s" else int(rng.integers(0, 2**31 - 1))])
                continue
            r = rng.random()
            if r < fault_p:
                which = rng.random()
                if a.kind == "gym" and which < 0.3:
                    emit(["seed", draw_seed(rng)])
                    emit(["reset", None])
                elif a.kind == "gym" and which < 0.6:
                    emit(["reset", draw_seed(rng)])
                else:
                    emit(["reset", None if a.kind != "m2s" else int(rng.integers(0, 2**31 - 1))])
                continue
            act = None
            if deep and rng.random() < 0.9:
                try:
                    m = a.adapter.env_mask(run.obs_np) if a.adapter.mask_mode else None
                    act = a.adapter.safe_policy("complete", util.to_np(run.state), a.base, rng, m if (m is None or m.any()) else None)
                except Exception:  # noqa: BLE001  (a policy that cannot cope with this state: fall back)
                    act = None
            if act is not None:
                emit(["step", act])
            elif rng.random() < 0.3:
                emit(["step", f"sample:{int(rng.integers(0, 100000))}"])
            else:
                emit(["step", legal_action_from_obs(a.adapter, a.base, run.obs_np, rng)])
        if a.kind == "gym" and rng.random() < 0.6:
            emit(["reseed_replay"])
    except Violation as v:
        v.ops = ops  # type: ignore[attr-defined]
        raise
    return ops, run


def rewind(a: AdaptSys) -> None:
    """Every run starts from the adapter's constructor key so that it can be replayed alone. A freshly constructed
    adapter is left untouched (the constructor's own handling of seed / key is then part of what is compared)."""
    a.shadow_key = a.jax.random.PRNGKey(a.seed0)
    if a.fresh:
        a.fresh = False
        return
    if a.kind == "gym":
        a.sut.seed(a.seed0)
    elif a.kind == "dm":
        a.sut._key = a.jax.random.PRNGKey(a.seed0)  # the dm_env adapter has no seed(); its key is its only hidden state


def execute(a: AdaptSys, ops: List[List[Any]], stats: Stats) -> None:
    rewind(a)
    run = AdaptRun(a, stats)
    for op in ops:
        apply_op(run, op)


def run_task(prop: Any, task: Dict[str, Any]) -> Dict[str, Any]:
    from jsim import envs

    adapter = envs.get(task["env"])
    cfg = task["cfg"]
    t0 = time.time()
    kind = task["kind"]
    seed0 = [0, 1, 20231, 2**31 - 1][util.crc(f"{cfg['id']}:{kind}:{task.get('aggregators', 'default')}:{task['shard']}") % 4]

    def build(fresh: bool = True) -> AdaptSys:
        b = AdaptSys(adapter, cfg, kind, task.get("aggregators", "default"), seed0)
        b.fresh = fresh  # not fresh: the run starts by re-seeding the adapter, as every run but the first of a task does
        return b

    from jsim.core import construct

    a = construct(build)
    stats = Stats()
    digests: List[int] = []
    nontrivial: List[bool] = []
    samples: List[Any] = []
    violations: List[Dict[str, Any]] = []
    seen = set()
    n_runs = task.get("runs")
    deadline = t0 + task["wall"] if task.get("wall") else None
    i = 0
    while True:
        if n_runs is not None and i >= n_runs:
            break
        if deadline is not None and time.time() > deadline and i >= 2:
            break
        rng = util.sub_rng(task["seed"], "C15", task["env"], cfg["id"], kind, task.get("aggregators", "default"), task["shard"], i)
        s0 = stats.steps
        r0 = stats.checks.get("resets_compared", 0)
        was_fresh = a.fresh
        rewind(a)
        try:
            ops, run = generate_and_run(a, rng, stats)
        except Violation as v:
            ops = v.ops  # type: ignore[attr-defined]
            key = (v.monitor, v.cls)
            if key not in seen and len(violations) < 6:
                seen.add(key)

                def still(cand: List[Any]) -> bool:
                    try:
                        # a replay runs on a freshly constructed adapter: so does every shrink candidate
                        execute(build(was_fresh), cand[1:], Stats())
                    except Violation as v2:
                        return (v2.monitor, v2.cls) == key
                    return False

                small = shrink([["start"]] + ops, still, budget=12)[1:]
                detail = v.detail
                try:
                    execute(build(was_fresh), small, Stats())
                    small = ops
                except Violation as v3:
                    detail = v3.detail
                violations.append({"property": "C15", "env": task["env"], "config": cfg, "seed": task["seed"], "shard": task["shard"], "run": i,
                                   "monitor": v.monitor, "class": v.cls, "detail": detail, "kind": kind, "seed0": seed0, "fresh": was_fresh,
                                   "aggregators": task.get("aggregators", "default"), "ops": small, "ops_unminimised": ops})
            stats.probe("runs_ending_in_violation")
            i += 1
            continue
        stats.runs += 1
        digests.append(int(util.crc(util.canon(ops)) | (util.crc(kind + cfg["id"]) << 32)))
        nontrivial.append(bool(stats.steps - s0 >= 3 and stats.checks.get("resets_compared", 0) - r0 >= 1))
        if len(samples) < 2:
            samples.append({"env": task["env"], "config": cfg["id"], "adapter": kind, "ops": ops[:10], "n_ops": len(ops)})
        i += 1
    return {
        "task": {"prop": "C15", "env": task["env"], "cfg": cfg["id"] + ":" + kind + ":" + task.get("aggregators", "default"), "shard": task["shard"]},
        "runs": stats.runs, "attempted": i, "steps": stats.steps, "faults": stats.faults, "policies": {},
        "transports": {kind: stats.steps}, "probes": stats.probes, "checks": stats.checks,
        "states": np.fromiter(stats.states, dtype=np.uint64, count=len(stats.states)).tobytes(), "n_states": len(stats.states),
        "digests": digests, "nontrivial": nontrivial, "samples": samples, "violations": violations, "det_ok": None,
        "wall": time.time() - t0,
    }


def replay(v: Dict[str, Any], path: str) -> int:
    from jsim import envs

    from jsim.core import construct

    a = construct(AdaptSys, envs.get(v["env"]), v["config"], v.get("kind", "gym"), v.get("aggregators", "default"), int(v.get("seed0", 0)))
    if v.get("construction_only"):
        return 0
    a.fresh = bool(v.get("fresh", True))
    try:
        execute(a, v["ops"], Stats())
    except Violation as got:
        if (got.monitor, got.cls) == (v["monitor"], v["class"]):
            print(f"VIOLATION property=C15 replay={path}")
            print(f"  env={v['env']} config={v['config']['id']} adapter={v['kind']} monitor={got.monitor} class={got.cls}: {got.detail[:300]}")
            return 1
    print(f"replay: no violation of class {v['monitor']}/{v['class']} reproduced from {path}")
    return 0
