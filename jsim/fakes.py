"""In-process fakes used by the simulator: recording entry points for the registry, dataset stub."""
from __future__ import annotations

import os
from typing import Any, Dict, List

CALLS: List[Dict[str, Any]] = []


class _Rec:
    def __init__(self, *args: Any, **kwargs: Any):
        self.args, self.kwargs = args, dict(kwargs)
        CALLS.append({"cls": type(self).__name__, "args": args, "kwargs": dict(kwargs)})


class FakeEnvA(_Rec):
    pass


class FakeEnvB(_Rec):
    pass


class FakeEnvC(_Rec):
    pass


DOWNLOADS: List[Dict[str, Any]] = []


def install_sokoban_download_stub() -> None:
    """DOWNLOAD seam: Sokoban's default generator fetches a dataset with hf_hub_download. The stub
    answers with a .npy written from the repository's own trivial levels (shape (N, 10, 10, 2))."""
    import jax
    import numpy as np
    from jumanji.environments.routing.sokoban import generator as G

    def fake(repo_id: str, filename: str, **kw: Any) -> str:
        DOWNLOADS.append({"repo_id": repo_id, "filename": filename})
        d = os.path.join("/verif/.work", str(os.getpid()))
        os.makedirs(d, exist_ok=True)
        path = os.path.join(d, filename)
        if not os.path.exists(path):
            gen = G.SimpleSolveGenerator()
            levels = []
            for k in range(4):
                s = gen(jax.random.PRNGKey(k))
                levels.append(np.stack([np.asarray(s.fixed_grid), np.asarray(s.variable_grid)], axis=-1))
            np.save(path, np.stack(levels).astype(np.uint8))
        return path

    G.hf_hub_download = fake


def mirror_obs_wrapper(env: Any) -> Any:
    """A user-style wrapper (an environment that is itself a jumanji Wrapper): reset and step return the
    observation with its grid flipped upside down. Used by C13/C14 so that "every environment" includes
    wrapped ones - a wrapper stack that bypassed it (e.g. by resetting through `unwrapped`) would show."""
    from jumanji.wrappers import Wrapper

    class MirrorObs(Wrapper):
        def _flip(self, ts: Any) -> Any:
            obs = ts.observation
            return ts.replace(observation=obs._replace(grid=obs.grid[::-1]))

        def reset(self, key: Any) -> Any:
            s, ts = self._env.reset(key)
            return s, self._flip(ts)

        def step(self, state: Any, action: Any) -> Any:
            s, ts = self._env.step(state, action)
            return s, self._flip(ts)

    return MirrorObs(env)


def knapsack_eighths_generator(num_items: int, total_budget: float) -> Any:
    """A user-written Knapsack generator (subclass of the public ``Generator`` base class): weights are multiples of
    1/8, so an item can fill the remaining budget *exactly* (the boundary of "weight <= remaining budget"), which the
    stock RandomGenerator's uniform floats never produce."""
    import jax
    import jax.numpy as jnp
    from jumanji.environments.packing.knapsack.generator import Generator
    from jumanji.environments.packing.knapsack.types import State

    class EighthsGenerator(Generator):
        def __call__(self, key: Any) -> Any:
            key, wk, vk = jax.random.split(key, 3)
            weights = jax.random.randint(wk, (self.num_items,), 1, 9).astype(float) / 8
            values = jax.random.uniform(vk, (self.num_items,))
            # the instance's own budget: a fraction (1/2, 3/4 or all) of the nominal one - the budget is part of the instance
            key, bk = jax.random.split(key)
            frac = jnp.asarray([0.5, 0.75, 1.0])[jax.random.randint(bk, (), 0, 3)]
            return State(weights=weights, values=values, packed_items=jnp.zeros(self.num_items, dtype=bool),
                         remaining_budget=jnp.array(self.total_budget, float) * frac, key=key)

    return EighthsGenerator(num_items, total_budget)


def maze_boxed_in_generator() -> Any:
    """A user-written Maze generator (subclass of the public ``Generator``): after one step to the right the agent sits in
    a dead-end cell; a second generator variant walls the agent in completely, so that no action is available at all (the
    env then ends the episode - an ending its docstring does not list, reachable only with such a level)."""
    import jax.numpy as jnp
    from jumanji.environments.routing.maze.generator import Generator
    from jumanji.environments.routing.maze.types import Position, State

    class BoxedInGenerator(Generator):
        def __init__(self) -> None:
            super().__init__(num_rows=3, num_cols=4)

        def __call__(self, key: Any) -> Any:
            walls = jnp.ones((3, 4), bool)
            walls = walls.at[1, 1].set(False)            # the agent's cell: walls on all four sides
            walls = walls.at[0, 3].set(False).at[1, 3].set(False).at[2, 3].set(False)  # a corridor with the target
            return State(agent_position=Position(row=jnp.array(1, jnp.int32), col=jnp.array(1, jnp.int32)),
                         target_position=Position(row=jnp.array(2, jnp.int32), col=jnp.array(3, jnp.int32)),
                         walls=walls, action_mask=None, key=key, step_count=jnp.array(0, jnp.int32))

    return BoxedInGenerator()
