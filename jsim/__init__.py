"""jsim - a small deterministic simulator for jumanji environments (see /verif/DESIGN.md)."""
