from jsim.envs.base import Adapter
from jsim.envs._mk import cfg, cross_tl


class A(Adapter):
    name = "Maze"
    mask_mode = "flat"

    def configs(self):
        base = [cfg("r10c10", True, gen="random", r=10, c=10, tl=None), cfg("r5c9", True, gen="random", r=5, c=9, tl=None),
                cfg("toy", gen="toy", r=5, c=5, tl=None), cfg("r9c5", gen="random", r=9, c=5, tl=None), cfg("r3c3", gen="random", r=3, c=3, tl=None)]
        return cross_tl(base, [None, 1, 2, 3, 7])

    def build(self, c):
        from jumanji.environments import Maze
        from jumanji.environments.routing.maze import generator as G
        g = G.ToyGenerator() if c["gen"] == "toy" else G.RandomGenerator(num_rows=c["r"], num_cols=c["c"])
        return Maze(generator=g, time_limit=c.get("tl"))

    def time_limit(self, env, c):
        return int(env.num_rows * env.num_cols) if c.get("tl") is None else c["tl"]
