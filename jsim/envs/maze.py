"""Maze: rules written from docs/environments/maze.md and the class docstring.

Grid of num_rows x num_cols cells, each free or a wall; (0, 0) is the top-left cell. One agent, one
target cell. Actions 0..3 = up, right, down, left: the agent moves one cell. A move is legal iff the
cell it leads to is inside the grid and not a wall; "if an invalid action is taken, or an action is
blocked by a wall, a no-op is performed and the agent's position remains unchanged" (the episode
continues). Reward 1 for reaching the target, 0 otherwise. The episode ends when the agent reaches
the target or at the time limit. Walls and target never change.

Not modelled (docs silent): the implementation also ends the episode when the agent has no legal
move at all; the generators never box the agent in, so the model keeps the two documented causes.
"""
from __future__ import annotations

from typing import Any, Optional, Tuple

import numpy as np

from jsim.envs._mk import cfg, cross_tl
from jsim.envs.base import Adapter, bfs_path

DELTA = [(-1, 0), (0, 1), (1, 0), (0, -1)]  # up, right, down, left


class A(Adapter):
    name = "Maze"
    mask_mode = "flat"
    has_invalid_effect = True
    has_physical = True
    has_model = True
    has_observer = True

    def configs(self):
        base = [cfg("r10c10", True, gen="random", r=10, c=10, tl=None), cfg("r5c9", True, gen="random", r=5, c=9, tl=None),
                cfg("toy", c02=True, gen="toy", r=5, c=5, tl=None), cfg("r9c5", gen="random", r=9, c=5, tl=None), cfg("r3c3", gen="random", r=3, c=3, tl=None),
                cfg("r7c4", True, gen="random", r=7, c=4, tl=None)]  # tall as well as wide (r5c9): a swapped bound shows on one orientation only
        out = cross_tl(base, [None, 1, 2, 3, 7])
        # a user-written level in which the agent is walled in (no action available): only the properties that do not depend
        # on the documented list of episode endings look at it (the env ends such an episode, its docstring does not say so)
        out.append(cfg("boxed", True, gen="boxed", r=3, c=4, tl=None, props=["C01", "C02", "C03", "C13", "C14"]))
        return out

    def build(self, c):
        from jumanji.environments import Maze
        from jumanji.environments.routing.maze import generator as G
        if c["gen"] == "boxed":
            from jsim import fakes
            return Maze(generator=fakes.maze_boxed_in_generator(), time_limit=c.get("tl"))
        g = G.ToyGenerator() if c["gen"] == "toy" else G.RandomGenerator(num_rows=c["r"], num_cols=c["c"])
        if c.get("tl") == 2:
            return Maze(g, c["tl"])  # (time_limit = 2 configurations pass the documented leading parameters positionally)
        return Maze(generator=g, time_limit=c.get("tl"))

    def time_limit(self, env, c):
        return int(env.num_rows * env.num_cols) if c.get("tl") is None else c["tl"]

    # ---- rules ---------------------------------------------------------------------------------
    @staticmethod
    def _pos(p: Any) -> Tuple[int, int]:
        return int(p.row), int(p.col)

    @staticmethod
    def _free(walls: np.ndarray, r: int, c: int) -> bool:
        R, C = walls.shape
        return 0 <= r < R and 0 <= c < C and not bool(walls[r, c])

    def legal(self, s: Any, env: Any) -> np.ndarray:
        walls = np.asarray(s.walls).astype(bool)
        r, c = self._pos(s.agent_position)
        return np.asarray([self._free(walls, r + dr, c + dc) for dr, dc in DELTA], bool)

    def describe(self, s, env, idx):
        return f"agent={self._pos(s.agent_position)} target={self._pos(s.target_position)} walls=\n{np.asarray(s.walls).astype(int)}"

    def _same_world(self, ps: Any, s: Any) -> Optional[Tuple[str, str]]:
        if not np.array_equal(np.asarray(ps.walls).astype(bool), np.asarray(s.walls).astype(bool)):
            return ("walls_changed", "the walls array changed during a step")
        if self._pos(ps.target_position) != self._pos(s.target_position):
            return ("target_moved", f"target moved {self._pos(ps.target_position)} -> {self._pos(s.target_position)}")
        return None

    # ---- C05 (ignore-invalid) --------------------------------------------------------------------
    def invalid_effect(self, ps, action, illegal, s, ts, env, cfg):
        before, after = self._pos(ps.agent_position), self._pos(s.agent_position)
        if after != before:
            return ("blocked_move_moved_agent", f"agent moved {before} -> {after} on the blocked action {int(action)}")
        d = self._same_world(ps, s)
        if d is not None:
            return d
        sc = int(ps.step_count) + 1
        if int(s.step_count) != sc:
            return ("blocked_move_step_count", f"step_count {int(s.step_count)} expected {sc}")
        tl = self.time_limit(env, cfg)
        on_target = before == self._pos(ps.target_position)  # cannot happen in a continuing episode; then nothing is asserted
        if not on_target:
            if (int(ts.step_type) == 2) != (sc >= tl):
                return ("blocked_move_termination", f"step_type {int(ts.step_type)} after a blocked move at step {sc} (time_limit {tl})")
            if not np.isclose(float(ts.reward), 0.0, rtol=1e-5, atol=1e-6):
                return ("blocked_move_reward", f"reward {float(ts.reward)} != 0 although the agent did not reach the target")
        return None

    # ---- C07 -------------------------------------------------------------------------------------
    def physical(self, ps, action, s, ts, env, cfg):
        walls = np.asarray(s.walls).astype(bool)
        R, C = walls.shape
        r, c = self._pos(s.agent_position)
        if not (0 <= r < R and 0 <= c < C):
            return ("agent_outside_grid", f"agent {(r, c)} outside {R}x{C}")
        if walls[r, c]:
            return ("agent_on_wall", f"agent {(r, c)} stands on a wall")
        if ps is not None:
            return self._same_world(ps, s)
        return None

    # ---- C09 -------------------------------------------------------------------------------------
    def model_step(self, ps, action, s, ts, env, cfg):
        a = int(action)
        walls = np.asarray(ps.walls).astype(bool)
        r, c = self._pos(ps.agent_position)
        nr, nc = r + DELTA[a][0], c + DELTA[a][1]
        if not self._free(walls, nr, nc):
            nr, nc = r, c
        if self._pos(s.agent_position) != (nr, nc):
            return ("agent_position", f"agent {self._pos(s.agent_position)} expected {(nr, nc)} (from {(r, c)}, action {a})")
        d = self._same_world(ps, s)
        if d is not None:
            return d
        sc = int(ps.step_count) + 1
        if int(s.step_count) != sc:
            return ("step_count", f"step_count {int(s.step_count)} expected {sc}")
        reached = (nr, nc) == self._pos(ps.target_position)
        want = 1.0 if reached else 0.0
        if not np.isclose(float(ts.reward), want, rtol=1e-5, atol=1e-6):
            return ("reward", f"reward {float(ts.reward)} expected {want}")
        tl = self.time_limit(env, cfg)
        done = reached or sc >= tl
        if (int(ts.step_type) == 2) != done:
            return ("termination", f"step_type {int(ts.step_type)} but the rules say done={done} (reached={reached}, step {sc}/{tl})")
        return None

    # ---- C11 -------------------------------------------------------------------------------------
    def end_cause(self, ps, action, s, ts, env, cfg):
        if self._pos(s.agent_position) == self._pos(s.target_position):
            return "target_reached"
        return None

    # ---- reach probes ------------------------------------------------------------------------------
    def events(self, ps, action, s, ts, env, cfg):
        walls = np.asarray(s.walls).astype(bool)
        R, C = walls.shape
        now, tgt = self._pos(s.agent_position), self._pos(s.target_position)
        n_legal = int(self.legal(s, env).sum())
        if ps is None:
            return ((["reset_nonsquare"] if R != C else []) + (["reset_agent_adjacent_to_target"] if abs(now[0] - tgt[0]) + abs(now[1] - tgt[1]) == 1 else [])
                    + (["reset_agent_boxed_in"] if n_legal == 0 else []) + (["reset_toy_generator"] if cfg.get("gen") == "toy" else []))
        a = int(action)
        r, c = self._pos(ps.agent_position)
        nr, nc = r + DELTA[a][0], c + DELTA[a][1]
        ev = []
        if not (0 <= nr < R and 0 <= nc < C):
            ev.append("move_blocked_by_border")
        elif walls[nr, nc]:
            ev.append("move_blocked_by_wall")
        else:
            ev.append("moved")
            if (nr, nc) == self._pos(ps.target_position):
                ev.append("end_target_reached")
        if now != tgt:
            if n_legal == 0:
                ev.append("agent_boxed_in_no_legal_move")
            elif n_legal == 1:
                ev.append("agent_in_dead_end")
            if int(ts.step_type) == 2 and abs(now[0] - tgt[0]) + abs(now[1] - tgt[1]) == 1:
                ev.append("ended_one_step_from_target")
        return ev

    # ---- C12 -------------------------------------------------------------------------------------
    def observe(self, s, obs, env, cfg):
        if self._pos(obs.agent_position) != self._pos(s.agent_position):
            return ("agent_position", f"obs {self._pos(obs.agent_position)} vs state {self._pos(s.agent_position)}")
        if self._pos(obs.target_position) != self._pos(s.target_position):
            return ("target_position", f"obs {self._pos(obs.target_position)} vs state {self._pos(s.target_position)}")
        if not np.array_equal(np.asarray(obs.walls), np.asarray(s.walls)):
            return ("walls", "obs.walls != state.walls")
        if int(obs.step_count) != int(s.step_count):
            return ("step_count", f"obs {int(obs.step_count)} vs state {int(s.step_count)}")
        if not np.array_equal(np.asarray(obs.action_mask), np.asarray(s.action_mask)):
            return ("action_mask", "obs.action_mask != state.action_mask")
        return None

    # ---- policies ----------------------------------------------------------------------------------
    def policy_survive(self, s, env, rng, legal):
        """Never step onto the target: walk among free non-target cells, or bump into a wall."""
        walls = np.asarray(s.walls).astype(bool)
        r, c = self._pos(s.agent_position)
        tgt = self._pos(s.target_position)
        moves, bumps = [], []
        for a in [int(x) for x in rng.permutation(4)]:
            nr, nc = r + DELTA[a][0], c + DELTA[a][1]
            if not self._free(walls, nr, nc):
                bumps.append(a)
            elif (nr, nc) != tgt:
                moves.append(a)
        if moves and (not bumps or rng.random() < 0.8):
            return moves[0]
        if bumps:
            return bumps[0]
        return moves[0] if moves else None

    def policy_complete(self, s, env, rng, legal):
        walls = np.asarray(s.walls).astype(bool)
        R, C = walls.shape
        start = self._pos(s.agent_position)
        tgt = self._pos(s.target_position)
        if not (0 <= start[0] < R and 0 <= start[1] < C):
            return None
        path = bfs_path(~walls, start, lambda cell: cell == tgt)
        if path is None or len(path) < 2:
            return None
        step = (path[1][0] - start[0], path[1][1] - start[1])
        return DELTA.index(step)
