"""Connector: rules written from docs/environments/connector.md, the class docstring and property C09.

Square grid, one grid value triple per agent i (ids from 0): path 1+3i, position (head) 2+3i, target 3+3i,
0 = empty. Actions per agent 0..4 = no-op, up, right, down, left. A head moves one cell; the cell it
leaves becomes its path, which nobody can enter any more. An agent may enter an empty cell or its own
target; a connected agent (head on its target) does not move any more. Agents move simultaneously; when
several heads try to enter the same cell in one step the lower ids yield (they stay where they were), the
agent with the highest id takes the cell. Reward (dense): +1 for the agent that connects on this step,
-0.03 for every agent that has not connected yet. The episode ends when every agent is connected or
blocked (no move available) or at the time limit.
"""
from __future__ import annotations

from typing import Any, Dict, List, Tuple

import numpy as np

from jsim.envs._mk import cfg, cross_tl
from jsim.envs.base import Adapter, bfs_path

DELTA = {1: (-1, 0), 2: (0, 1), 3: (1, 0), 4: (0, -1)}  # up, right, down, left
PATH, POS, TGT = 1, 2, 3  # + 3 * agent id
CONNECT_REWARD, STEP_REWARD = 1.0, -0.03


def _act(frm: Tuple[int, int], to: Tuple[int, int]) -> int:
    d = (to[0] - frm[0], to[1] - frm[1])
    for a, dd in DELTA.items():
        if dd == d:
            return a
    return 0


class A(Adapter):
    name = "Connector"
    run_scale = 1
    mask_mode = "per_agent"
    noop = 0
    has_reaction = True
    has_invalid_effect = True
    has_constraints = True
    has_physical = True
    has_model = True
    has_observer = True

    def configs(self):
        base = [cfg("g10a10rw", True, g=10, a=10, gen="rw", tl=None), cfg("g5a2uni", True, g=5, a=2, gen="uni", tl=None),
                cfg("g6a3rw", g=6, a=3, gen="rw", tl=None), cfg("g5a1rw", True, g=5, a=1, gen="rw", tl=None),
                cfg("g8a4uni", g=8, a=4, gen="uni", tl=None),
                # user-chosen reward coefficients, one of them zero (falsy): DenseRewardFn(connected_reward, timestep_reward)
                cfg("g5a3rwr0", True, g=5, a=3, gen="rw", tl=None, cr=0.5, tr=0.0)]
        return cross_tl(base, [1, 2, 3, 7])

    def build(self, c):
        from jumanji.environments import Connector
        from jumanji.environments.routing.connector import generator as G
        g = (G.RandomWalkGenerator if c["gen"] == "rw" else G.UniformRandomGenerator)(grid_size=c["g"], num_agents=c["a"])
        kw = {} if c.get("tl") is None else {"time_limit": c["tl"]}
        if "cr" in c:
            from jumanji.environments.routing.connector.reward import DenseRewardFn
            kw["reward_fn"] = DenseRewardFn(connected_reward=c["cr"], timestep_reward=c["tr"])
        return Connector(generator=g, **kw)

    def time_limit(self, env, c):
        return 50 if c.get("tl") is None else c["tl"]

    # ---- raw-array rules -----------------------------------------------------------------------------
    @staticmethod
    def _raw(s: Any) -> Tuple[np.ndarray, np.ndarray, np.ndarray]:
        grid = np.asarray(s.grid).astype(np.int64)
        pos = np.asarray(s.agents.position).astype(np.int64).reshape(-1, 2)
        tgt = np.asarray(s.agents.target).astype(np.int64).reshape(-1, 2)
        return grid, pos, tgt

    @staticmethod
    def _legal_raw(grid: np.ndarray, pos: np.ndarray, tgt: np.ndarray) -> np.ndarray:
        n = len(pos)
        R, C = grid.shape
        out = np.zeros((n, 5), bool)
        out[:, 0] = True  # no-op is always allowed
        for i in range(n):
            if tuple(pos[i]) == tuple(tgt[i]):
                continue  # connected agents do not move any more
            for a, (dr, dc) in DELTA.items():
                r, c = int(pos[i, 0]) + dr, int(pos[i, 1]) + dc
                if 0 <= r < R and 0 <= c < C and (grid[r, c] == 0 or grid[r, c] == TGT + 3 * i):
                    out[i, a] = True
        return out

    @classmethod
    def _step_raw(cls, grid: np.ndarray, pos: np.ndarray, tgt: np.ndarray, action: Any) -> Tuple[np.ndarray, np.ndarray, int]:
        """Simultaneous move: every allowed move is a claim on its target cell; a cell claimed by several heads goes to
        the highest id (lower ids yield and stay). Returns (grid, positions, number of contested cells)."""
        legal = cls._legal_raw(grid, pos, tgt)
        claims: Dict[Tuple[int, int], List[int]] = {}
        for i in range(len(pos)):
            a = int(action[i])
            if a != 0 and legal[i, a]:
                cell = (int(pos[i, 0]) + DELTA[a][0], int(pos[i, 1]) + DELTA[a][1])
                claims.setdefault(cell, []).append(i)
        g2, p2 = grid.copy(), pos.copy()
        contested = 0
        for cell, ids in claims.items():
            w = max(ids)
            contested += len(ids) > 1
            g2[tuple(pos[w])] = PATH + 3 * w
            g2[cell] = POS + 3 * w
            p2[w] = cell
        return g2, p2, contested

    @classmethod
    def _finished(cls, grid: np.ndarray, pos: np.ndarray, tgt: np.ndarray) -> Tuple[np.ndarray, np.ndarray]:
        conn = (pos == tgt).all(axis=1)
        blocked = ~cls._legal_raw(grid, pos, tgt)[:, 1:].any(axis=1)
        return conn, blocked

    # ---- C04 -----------------------------------------------------------------------------------------
    def legal(self, s: Any, env: Any) -> np.ndarray:
        return self._legal_raw(*self._raw(s))

    def describe(self, s, env, idx):
        grid, pos, tgt = self._raw(s)
        i = idx[0]
        return f"agent {i} head={tuple(pos[i])} target={tuple(tgt[i])} grid=\n{grid}"

    def reaction_invalid(self, ps, action, agent, s, ts, env, cfg):
        if int(action[agent]) == 0:
            return None  # a no-op cannot be told from an ignored move
        before = np.asarray(ps.agents.position)[agent]
        after = np.asarray(s.agents.position)[agent]
        return bool(np.array_equal(before, after))  # the head did not move: the move was ignored

    # ---- C05 -----------------------------------------------------------------------------------------
    def invalid_effect(self, ps, action, illegal, s, ts, env, cfg):
        g0, p0, t0 = self._raw(ps)
        g1, p1, _ = self._raw(s)
        ill = list(illegal) if isinstance(illegal, (list, tuple)) else list(range(len(p0)))
        for i in ill:
            if not np.array_equal(p0[i], p1[i]):
                return ("invalid_move_moved_agent", f"agent {i} moved {tuple(p0[i])} -> {tuple(p1[i])} on an illegal action {int(action[i])}")
            own0 = (g0 >= PATH + 3 * i) & (g0 <= TGT + 3 * i)
            own1 = (g1 >= PATH + 3 * i) & (g1 <= TGT + 3 * i)
            if not np.array_equal(np.where(own0, g0, 0), np.where(own1, g1, 0)):
                return ("invalid_move_changed_cells", f"cells of agent {i} changed on its illegal action {int(action[i])}:\n{g0}\n->\n{g1}")
        if all(int(action[j]) == 0 or j in ill for j in range(len(p0))):
            # nobody made an allowed move: nothing may be placed anywhere
            if not np.array_equal(g0, g1):
                return ("invalid_move_changed_grid", f"grid changed although only illegal moves / no-ops were played:\n{g0}\n->\n{g1}")
            conn, blocked = self._finished(g0, p0, t0)
            may_end = bool((conn | blocked).all()) or int(ps.step_count) + 1 >= self.time_limit(env, cfg)
            if int(ts.step_type) == 2 and not may_end:
                return ("invalid_move_ended_episode", f"LAST after an ignored move at step {int(ps.step_count) + 1} (not all agents connected/blocked)")
            want = np.where(conn, 0.0, cfg.get("tr", STEP_REWARD))
            if not np.allclose(np.asarray(ts.reward, dtype=np.float64), want, rtol=1e-5, atol=1e-6):
                return ("invalid_move_reward", f"reward {np.asarray(ts.reward).tolist()} expected {want.tolist()} (nobody connected)")
        if int(s.step_count) != int(ps.step_count) + 1:
            return ("invalid_move_step_count", f"step_count {int(s.step_count)} after {int(ps.step_count)}")
        return None

    # ---- C06 -----------------------------------------------------------------------------------------
    def constraints(self, hist, env, cfg):
        grid, pos, tgt = self._raw(hist[0].state)
        n = len(pos)
        routes: List[List[Tuple[int, int]]] = [[(int(p[0]), int(p[1]))] for p in pos]
        for rec in hist[1:]:
            if rec.post_terminal:
                break
            grid, p2, _ = self._step_raw(grid, pos, tgt, rec.action)
            for i in range(n):
                if not np.array_equal(p2[i], pos[i]):
                    routes[i].append((int(p2[i, 0]), int(p2[i, 1])))
            pos = p2
        s = hist[-1].state
        g, p, t = self._raw(s)
        owner: Dict[Tuple[int, int], int] = {}
        for i, route in enumerate(routes):
            for k, cell in enumerate(route):
                if cell in owner:
                    return ("routes_share_cell", f"cell {cell} lies on the routes of agents {owner[cell]} and {i}")
                owner[cell] = i
                if k and abs(cell[0] - route[k - 1][0]) + abs(cell[1] - route[k - 1][1]) != 1:
                    return ("route_not_contiguous", f"agent {i}: {route[k - 1]} -> {cell}")
        want = np.zeros_like(g)
        for i, route in enumerate(routes):
            for cell in route[:-1]:
                want[cell] = PATH + 3 * i
            want[route[-1]] = POS + 3 * i
            tc = (int(t[i, 0]), int(t[i, 1]))
            if route[-1] != tc:
                if tc in owner:
                    return ("route_through_foreign_target", f"target {tc} of agent {i} lies on the route of agent {owner[tc]}")
                want[tc] = TGT + 3 * i
            if tuple(p[i]) != route[-1]:
                return ("head_differs_from_history", f"agent {i}: agents.position {tuple(p[i])} but the action history leads to {route[-1]}")
        if not np.array_equal(g, want):
            ij = np.argwhere(g != want)[0]
            return ("grid_differs_from_routes", f"grid{ij.tolist()} = {int(g[tuple(ij)])} but the routes rebuilt from the action history give "
                    f"{int(want[tuple(ij)])}:\n{g}\nvs\n{want}")
        if int(hist[-1].ts.step_type) == 2 and bool((p == t).all()):
            # completion: every route is a contiguous start..target path and the routes are pairwise disjoint (checked above)
            for i, route in enumerate(routes):
                if route[-1] != (int(t[i, 0]), int(t[i, 1])):
                    return ("incomplete_at_completion", f"agent {i} route ends at {route[-1]}, target {tuple(t[i])}")
        return None

    # ---- C07 -----------------------------------------------------------------------------------------
    def physical(self, ps, action, s, ts, env, cfg):
        g, p, t = self._raw(s)
        n = len(p)
        R, C = g.shape
        if g.min() < 0 or g.max() > 3 * n:
            return ("grid_value_out_of_range", f"grid values span {int(g.min())}..{int(g.max())} with {n} agents")
        for i in range(n):
            cells = np.argwhere(g == POS + 3 * i)
            if len(cells) != 1:
                return ("position_not_unique", f"agent {i}: {len(cells)} cells hold its position value {POS + 3 * i}")
            if not (0 <= p[i, 0] < R and 0 <= p[i, 1] < C):
                return ("agent_outside_grid", f"agent {i} at {tuple(p[i])}")
            if tuple(cells[0]) != tuple(p[i]):
                return ("position_disagrees_with_grid", f"agent {i}: agents.position {tuple(p[i])} but the grid shows its head at {tuple(cells[0])}")
            tc = np.argwhere(g == TGT + 3 * i)
            if tuple(p[i]) == tuple(t[i]):
                if len(tc):
                    return ("target_left_after_connection", f"agent {i} is connected but value {TGT + 3 * i} is still at {tc.tolist()}")
            elif len(tc) != 1 or tuple(tc[0]) != tuple(t[i]):
                return ("target_missing", f"agent {i} not connected; target {tuple(t[i])}, cells holding {TGT + 3 * i}: {tc.tolist()}")
        if ps is None:
            return None
        g0, p0, t0 = self._raw(ps)
        if not np.array_equal(t0, t):
            return ("target_moved", f"targets {t0.tolist()} -> {t.tolist()}")
        if ((g0 != 0) & (g == 0)).any():
            return ("cell_emptied", f"non-empty cell became empty: {np.argwhere((g0 != 0) & (g == 0))[0].tolist()}")
        grown = 0
        for i in range(n):
            if np.array_equal(p0[i], p[i]):
                continue
            if abs(p0[i] - p[i]).sum() != 1:
                return ("agent_jumped", f"agent {i}: {tuple(p0[i])} -> {tuple(p[i])}")
            if g[tuple(p0[i])] != PATH + 3 * i:
                return ("no_path_left_behind", f"agent {i} left {tuple(p0[i])} which now holds {int(g[tuple(p0[i])])}")
            grown += int(g0[tuple(p[i])] == 0)  # entering the own target does not add a non-empty cell
        if int((g != 0).sum()) - int((g0 != 0).sum()) != grown:
            return ("occupancy_not_conserved", f"non-empty cells {int((g0 != 0).sum())} -> {int((g != 0).sum())} but {grown} agents moved onto empty cells")
        paths0 = (g0 > 0) & (g0 % 3 == PATH)
        if (g[paths0] != g0[paths0]).any():
            return ("path_cell_changed", "a path cell changed its value")
        return None

    # ---- C09 -----------------------------------------------------------------------------------------
    def model_step(self, ps, action, s, ts, env, cfg):
        g0, p0, t0 = self._raw(ps)
        g1, p1, contested = self._step_raw(g0, p0, t0, action)
        g, p, t = self._raw(s)
        if int(s.step_count) != int(ps.step_count) + 1:
            return ("step_count", f"step_count {int(s.step_count)} expected {int(ps.step_count) + 1}")
        if not np.array_equal(p, p1):
            i = int(np.argwhere((p != p1).any(axis=1))[0][0])
            return ("position", f"agent {i}: position {tuple(p[i])} expected {tuple(p1[i])} (from {tuple(p0[i])}, actions {list(action)}, "
                    f"{contested} contested cells)\n{g0}")
        if not np.array_equal(g, g1):
            ij = np.argwhere(g != g1)[0]
            return ("grid", f"grid{ij.tolist()} = {int(g[tuple(ij)])} expected {int(g1[tuple(ij)])} (actions {list(action)})\n{g0}\n->\n{g}")
        if not np.array_equal(t, t0) or not np.array_equal(np.asarray(s.agents.start), np.asarray(ps.agents.start)) \
                or not np.array_equal(np.asarray(s.agents.id), np.asarray(ps.agents.id)):
            return ("agent_constants", "agents.id / start / target changed")
        conn0 = (p0 == t0).all(axis=1)
        conn1 = (p1 == t0).all(axis=1)
        r = np.asarray(ts.reward, dtype=np.float64)
        base = np.where(conn0, 0.0, cfg.get("tr", STEP_REWARD)) + np.where(conn1 & ~conn0, cfg.get("cr", CONNECT_REWARD), 0.0)
        # the docs do not say whether the agent that connects on this step still pays the -0.03 of "not connected yet":
        # both readings are accepted for that agent only
        alt = np.where(conn1 & ~conn0, CONNECT_REWARD, base)
        ok = np.isclose(r, base, rtol=1e-5, atol=1e-6) | np.isclose(r, alt, rtol=1e-5, atol=1e-6)
        if r.shape != base.shape or not ok.all():
            return ("reward", f"reward {r.tolist()} expected {base.tolist()} (connected before {conn0.tolist()}, after {conn1.tolist()})")
        conn, blocked = self._finished(g1, p1, t0)
        sc = int(ps.step_count) + 1
        done = bool((conn | blocked).all()) or sc >= self.time_limit(env, cfg)
        if (int(ts.step_type) == 2) != done:
            return ("termination", f"step_type {int(ts.step_type)} but the rules say done={done} (connected {conn.tolist()}, blocked "
                    f"{blocked.tolist()}, step {sc}/{self.time_limit(env, cfg)})")
        return None

    # ---- C11 -----------------------------------------------------------------------------------------
    def end_cause(self, ps, action, s, ts, env, cfg):
        g, p, t = self._raw(s)
        conn, blocked = self._finished(g, p, t)
        if conn.all():
            return "all_connected"
        if (conn | blocked).all():
            return "all_connected_or_blocked"
        return None

    # ---- reach probes ----------------------------------------------------------------------------------
    def events(self, ps, action, s, ts, env, cfg):
        g1, p1, t1 = self._raw(s)
        conn1, blk1 = self._finished(g1, p1, t1)
        if ps is None:
            near = bool((np.abs(p1 - t1).sum(axis=1) == 1).any())
            return ((["reset_multi_agent"] if len(p1) > 1 else ["reset_single_agent"]) + (["reset_agent_blocked"] if (blk1 & ~conn1).any() else [])
                    + (["reset_head_adjacent_to_target"] if near else []))
        g0, p0, t0 = self._raw(ps)
        legal = self._legal_raw(g0, p0, t0)
        conn0, blk0 = self._finished(g0, p0, t0)
        ev = []
        claims: Dict[Tuple[int, int], List[int]] = {}
        for i in range(len(p0)):
            a = int(action[i])
            if a == 0:
                continue
            if not legal[i, a]:
                ev.append("move_by_connected_agent_ignored" if conn0[i] else "illegal_move_ignored")
                continue
            claims.setdefault((int(p0[i, 0]) + DELTA[a][0], int(p0[i, 1]) + DELTA[a][1]), []).append(i)
        for ids in claims.values():
            if len(ids) >= 2:
                ev.append("contention_2way" if len(ids) == 2 else "contention_3way_or_more")
        movers = sum(len(ids) for ids in claims.values())
        ev.append("no_agent_moves" if movers == 0 else "agents_moving_simultaneously_ge2" if movers >= 2 else "one_agent_moves")
        newc = int((conn1 & ~conn0).sum())
        if newc:
            ev.append("agent_connected")
            if newc >= 2:
                ev.append("two_agents_connected_in_one_step")
        if ((blk1 & ~conn1) & ~(blk0 & ~conn0)).any():
            ev.append("agent_became_blocked")
        if (conn1 | blk1).all():
            ev.append("end_all_connected" if conn1.all() else "end_all_blocked_none_connected" if not conn1.any() else "end_some_connected_rest_blocked")
        return ev

    # ---- C12 -----------------------------------------------------------------------------------------
    def observe(self, s, obs, env, cfg):
        # docs/environments/connector.md and the observation spec: one (grid_size, grid_size) grid shared by all agents
        # (the per-agent relabelled view mentioned in the Observation NamedTuple docstring is not what the docs publish)
        g = np.asarray(s.grid)
        og = np.asarray(obs.grid)
        if og.shape != g.shape or not np.array_equal(og, g):
            return ("grid", f"observation.grid differs from state.grid:\n{og}\nvs\n{g}")
        if int(obs.step_count) != int(s.step_count):
            return ("step_count", f"obs {int(obs.step_count)} vs state {int(s.step_count)}")
        m = np.asarray(obs.action_mask)
        n = np.asarray(s.agents.position).reshape(-1, 2).shape[0]
        if m.shape != (n, 5) or m.dtype != bool:
            return ("action_mask_shape", f"action_mask {m.shape} {m.dtype}")
        return None

    # ---- policies ------------------------------------------------------------------------------------
    def policy_survive(self, s, env, rng, legal):
        return [0] * len(np.asarray(s.agents.position).reshape(-1, 2))  # nobody moves: only the clock (or an all-blocked board) ends it

    def policy_complete(self, s, env, rng, legal):
        """Plan agents in id order: BFS through empty cells not reserved by an earlier agent's plan."""
        g, p, t = self._raw(s)
        n = len(p)
        reserved = np.zeros(g.shape, bool)
        act = [0] * n
        for i in range(n):
            if tuple(p[i]) == tuple(t[i]):
                continue
            free = (g == 0) & ~reserved
            goal = (int(t[i, 0]), int(t[i, 1]))
            free[goal] = True
            path = bfs_path(free, (int(p[i, 0]), int(p[i, 1])), lambda c, goal=goal: c == goal)
            if path is None or len(path) < 2:
                continue
            for c in path[1:]:
                reserved[c] = True
            act[i] = _act(path[0], path[1])
        if not any(act):
            return None
        return act

    def policy_collide(self, s, env, rng, legal):
        """Send as many heads as possible into one empty cell; otherwise walk the closest pair towards each other."""
        g, p, t = self._raw(s)
        n = len(p)
        lg = self._legal_raw(g, p, t)
        wants: Dict[Tuple[int, int], List[Tuple[int, int]]] = {}
        for i in range(n):
            for a in DELTA:
                if lg[i, a]:
                    cell = (int(p[i, 0]) + DELTA[a][0], int(p[i, 1]) + DELTA[a][1])
                    if g[cell] == 0:
                        wants.setdefault(cell, []).append((i, a))
        shared = sorted((c for c in wants if len(wants[c]) > 1), key=lambda c: (-len(wants[c]), c))
        act = [0] * n
        if shared:
            top = [c for c in shared if len(wants[c]) == len(wants[shared[0]])]
            cell = top[int(rng.integers(0, len(top)))]
            for i, a in wants[cell]:
                act[i] = a
            for i in range(n):  # the others move at random (legal) half of the time
                if act[i] == 0 and rng.random() < 0.5:
                    idx = np.flatnonzero(lg[i])
                    act[i] = int(idx[int(rng.integers(0, len(idx)))])
            return act
        movers = [i for i in range(n) if lg[i, 1:].any()]
        best = None
        for x in range(len(movers)):
            for y in range(x + 1, len(movers)):
                i, j = movers[x], movers[y]
                d = int(abs(p[i] - p[j]).sum())
                if best is None or d < best[0]:
                    best = (d, i, j)
        if best is None:
            return None
        _, i, j = best
        free = g == 0
        goal = (int(p[j, 0]), int(p[j, 1]))
        free[goal] = True
        path = bfs_path(free, (int(p[i, 0]), int(p[i, 1])), lambda c: c == goal)
        if path is None or len(path) < 3:
            return None
        edges = len(path) - 1
        act[i] = _act(path[0], path[1])
        if edges % 2 == 0 and edges >= 4:
            act[j] = _act(path[-1], path[-2])
        return act
