from jsim.envs.base import Adapter
from jsim.envs._mk import cfg, cross_tl


class A(Adapter):
    name = "Connector"
    mask_mode = "per_agent"
    noop = 0

    def configs(self):
        base = [cfg("g10a10rw", True, g=10, a=10, gen="rw", tl=None), cfg("g5a2uni", True, g=5, a=2, gen="uni", tl=None),
                cfg("g6a3rw", g=6, a=3, gen="rw", tl=None), cfg("g5a1rw", g=5, a=1, gen="rw", tl=None),
                cfg("g8a4uni", g=8, a=4, gen="uni", tl=None)]
        return cross_tl(base, [1, 2, 3, 7])

    def build(self, c):
        from jumanji.environments import Connector
        from jumanji.environments.routing.connector import generator as G
        g = (G.RandomWalkGenerator if c["gen"] == "rw" else G.UniformRandomGenerator)(grid_size=c["g"], num_agents=c["a"])
        kw = {} if c.get("tl") is None else {"time_limit": c["tl"]}
        return Connector(generator=g, **kw)

    def time_limit(self, env, c):
        return 50 if c.get("tl") is None else c["tl"]
