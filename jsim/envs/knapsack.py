from jsim.envs.base import Adapter
from jsim.envs._mk import cfg


class A(Adapter):
    name = "Knapsack"
    mask_mode = "flat"
    terminate_on_invalid = True

    def configs(self):
        return [cfg("n50b12", True, n=50, b=12.5, rew="dense"), cfg("n5b1sparse", True, n=5, b=1.0, rew="sparse"),
                cfg("n10b2", n=10, b=2.0, rew="dense"), cfg("n20b40sparse", n=20, b=40.0, rew="sparse")]

    def build(self, c):
        from jumanji.environments import Knapsack
        from jumanji.environments.packing.knapsack import generator as G
        from jumanji.environments.packing.knapsack import reward as R
        rf = R.DenseReward() if c["rew"] == "dense" else R.SparseReward()
        return Knapsack(generator=G.RandomGenerator(num_items=c["n"], total_budget=c["b"]), reward_fn=rf)

    def horizon(self, env, c):
        return c["n"]
