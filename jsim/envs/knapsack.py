"""Knapsack: rules written from docs/environments/knapsack.md and the class docstring.

num_items items with weights and values in [0, 1), a bag of capacity total_budget. The action is the index
of the next item to pack. It is valid iff the item is not packed yet and its weight is not larger than the
remaining capacity. The episode ends when no further item can be added or the chosen action is invalid.
Reward: dense = value of the item packed at this step; sparse = sum of the values of the packed items at the
end of the episode; in both cases 0 if the action is invalid.
"""
from __future__ import annotations

from typing import Any, Optional

import numpy as np

from jsim.envs._mk import cfg
from jsim.envs.base import Adapter


class A(Adapter):
    name = "Knapsack"
    mask_mode = "flat"
    terminate_on_invalid = True
    has_reaction = True
    has_invalid_effect = True
    has_constraints = True
    has_objective = True
    has_model = True
    has_observer = True

    def configs(self):
        return [cfg("n50b12", True, n=50, b=12.5, rew="dense"), cfg("n5b1sparse", True, n=5, b=1.0, rew="sparse"),
                cfg("n10b2", n=10, b=2.0, rew="dense"), cfg("n20b40sparse", n=20, b=40.0, rew="sparse"),
                # user-written generator with weights in eighths: items that fill the remaining budget exactly
                cfg("n8b2eighths", True, n=8, b=2.0, rew="dense", gen="eighths"),
                cfg("n6b1eighths_sparse", n=6, b=1.0, rew="sparse", gen="eighths")]

    def build(self, c):
        from jumanji.environments import Knapsack
        from jumanji.environments.packing.knapsack import generator as G
        from jumanji.environments.packing.knapsack import reward as R
        rf = R.DenseReward() if c["rew"] == "dense" else R.SparseReward()
        if c.get("gen") == "eighths":
            from jsim import fakes
            return Knapsack(generator=fakes.knapsack_eighths_generator(c["n"], c["b"]), reward_fn=rf)
        return Knapsack(generator=G.RandomGenerator(num_items=c["n"], total_budget=c["b"]), reward_fn=rf)

    def horizon(self, env, c):
        return c["n"]

    # ---- rules ---------------------------------------------------------------------------------
    def legal(self, s: Any, env: Any) -> np.ndarray:
        w = np.asarray(s.weights)
        packed = np.asarray(s.packed_items).astype(bool)
        # both sides are the float32 numbers held by the state: an exact comparison, no arithmetic involved
        return ~packed & (w <= np.asarray(s.remaining_budget))

    def describe(self, s, env, idx):
        i = int(idx[0])
        return (f"item {i}: weight {float(np.asarray(s.weights)[i])!r}, packed {bool(np.asarray(s.packed_items)[i])}, "
                f"remaining budget {float(s.remaining_budget)!r}")

    PROBLEM_FIELDS = ("weights", "values", "packed_items", "remaining_budget")

    def _untouched(self, ps: Any, s: Any) -> Optional[str]:
        for f in self.PROBLEM_FIELDS:
            a, b = np.asarray(getattr(ps, f)), np.asarray(getattr(s, f))
            if a.dtype != b.dtype or a.shape != b.shape or a.tobytes() != b.tobytes():
                return f
        return None

    # ---- C04 (b) -----------------------------------------------------------------------------------
    def reaction_invalid(self, ps, action, agent, s, ts, env, cfg):
        # a valid move puts the item into the bag; the env rejected the move iff the item was not newly packed
        a = int(action)
        newly = bool(np.asarray(s.packed_items)[a]) and not bool(np.asarray(ps.packed_items)[a])
        return not newly

    # ---- C05 -------------------------------------------------------------------------------------
    def invalid_effect(self, ps, action, illegal, s, ts, env, cfg):
        if int(ts.step_type) != 2:
            return ("invalid_move_not_terminal", f"step_type {int(ts.step_type)} after illegal item {int(action)}")
        if float(ts.reward) != 0.0:
            return ("invalid_move_reward", f"reward {float(ts.reward)} != 0 on an illegal move (documented for both reward functions)")
        if float(ts.discount) != 0.0:
            return ("invalid_move_discount", f"discount {float(ts.discount)} != 0 on the terminal step")
        f = self._untouched(ps, s)
        if f is not None:
            return ("invalid_move_changed_state", f"state.{f} changed by an illegal move: {np.asarray(getattr(ps, f)).tolist()} -> {np.asarray(getattr(s, f)).tolist()}")
        return None

    # ---- C06 -------------------------------------------------------------------------------------
    def constraints(self, hist, env, cfg):
        s, s0 = hist[-1].state, hist[0].state
        B = float(s0.remaining_budget)  # the instance's own budget (a user generator may hand out less than the nominal one)
        w = np.asarray(s.weights).astype(np.float64)
        packed = np.asarray(s.packed_items).astype(bool)
        if np.asarray(s.weights).tobytes() != np.asarray(s0.weights).tobytes() or np.asarray(s.values).tobytes() != np.asarray(s0.values).tobytes():
            return ("instance_changed", "weights / values differ from the reset state")
        acts = [int(r.action) for r in hist[1:]]
        if len(set(acts)) != len(acts):
            d = [a for a in acts if acts.count(a) > 1][0]
            return ("item_packed_twice", f"masked-in item {d} was chosen twice (history {acts})")
        if set(np.flatnonzero(packed).tolist()) != set(acts):
            return ("packed_set_differs_from_history", f"packed_items {np.flatnonzero(packed).tolist()} vs items chosen in the history {sorted(acts)}")
        total = float(w[packed].sum())
        # the state keeps float32 numbers; the bag arithmetic of a correct implementation may round: relative 1e-5
        if total > B + 1e-5 * max(1.0, B):
            return ("over_budget", f"total weight of the packed items {total!r} exceeds the budget {B!r}")
        if len(hist) > 1 and int(hist[-1].ts.step_type) == 2:
            # ended by completion: no further item can be added (clear cases only: margin for float32 rounding)
            rem = B - total
            fits = np.flatnonzero(~packed & (w <= rem - 1e-4 * max(1.0, B)))
            if len(fits):
                i = int(fits[0])
                return ("ended_although_item_fits", f"episode ended but unpacked item {i} (weight {w[i]!r}) fits the remaining capacity {rem!r}")
        return None

    # ---- C08 -------------------------------------------------------------------------------------
    def objective(self, hist, env, cfg):
        if int(hist[-1].ts.step_type) != 2:
            return None
        s = hist[-1].state
        packed = np.asarray(s.packed_items).astype(bool)
        return float(np.asarray(s.values).astype(np.float64)[packed].sum())

    def sparse_twin(self, c):
        other = "sparse" if c["rew"] == "dense" else "dense"
        d = dict(c)
        d["rew"] = other
        d["id"] = f"{c['id']}~{other}"
        d["quick"] = False
        return d

    # ---- C09 -------------------------------------------------------------------------------------
    def model_step(self, ps, action, s, ts, env, cfg):
        a = int(action)
        w, v = np.asarray(ps.weights), np.asarray(ps.values)
        packed = np.asarray(ps.packed_items).astype(bool)
        rem = np.asarray(ps.remaining_budget)
        if not self.legal(ps, env)[a]:
            # terminate-on-invalid: reward / done (the docs also promise nothing is packed; C05 judges the state)
            if int(ts.step_type) != 2:
                return ("termination", f"illegal item {a} did not end the episode")
            if float(ts.reward) != 0.0:
                return ("reward", f"reward {float(ts.reward)} after an illegal move, expected 0")
            return None
        if np.asarray(s.weights).tobytes() != w.tobytes() or np.asarray(s.values).tobytes() != v.tobytes():
            return ("instance_changed", "weights / values changed during a step")
        np_ = packed.copy()
        np_[a] = True
        if not np.array_equal(np.asarray(s.packed_items).astype(bool), np_):
            return ("packed_items", f"packed_items {np.flatnonzero(np.asarray(s.packed_items)).tolist()} after packing item {a}, expected {np.flatnonzero(np_).tolist()}")
        want_rem = float(rem) - float(w[a])
        if not np.isclose(float(s.remaining_budget), want_rem, rtol=1e-5, atol=1e-6):
            return ("remaining_budget", f"remaining_budget {float(s.remaining_budget)!r} after packing weight {float(w[a])!r} from {float(rem)!r}, expected {want_rem!r}")
        # done iff no unpacked item fits; an item whose weight is within rounding distance of the remaining
        # capacity may go either way (float32 subtraction), so such successors are not judged on termination
        wf = w.astype(np.float64)
        tol = 1e-5 * max(1.0, abs(want_rem)) + 1e-6
        clear_fit = bool((~np_ & (wf <= want_rem - tol)).any())
        border = bool((~np_ & (np.abs(wf - want_rem) < tol)).any())
        last = int(ts.step_type) == 2
        if clear_fit and last:
            return ("termination", f"episode ended after a legal move although an unpacked item still fits (remaining {want_rem!r})")
        if not clear_fit and not border and not last:
            return ("termination", f"episode continues although no unpacked item fits the remaining capacity {want_rem!r}")
        if cfg["rew"] == "dense":
            want_reward = float(v[a])
        else:
            want_reward = float(v.astype(np.float64)[np_].sum()) if last else 0.0
        if not np.isclose(float(ts.reward), want_reward, rtol=1e-5, atol=1e-6):
            return ("reward", f"reward {float(ts.reward)!r} expected {want_reward!r} ({cfg['rew']} reward, item {a}, done={last})")
        return None

    # ---- C11 -------------------------------------------------------------------------------------
    def end_cause(self, ps, action, s, ts, env, cfg):
        if not self.legal(ps, env)[int(action)]:
            return "invalid_action"
        if not self.legal(s, env).any():
            return "no_item_fits"
        return None

    # ---- reach probes ---------------------------------------------------------------------------
    def events(self, ps, action, s, ts, env, cfg):
        w = np.asarray(s.weights).astype(np.float64)
        rem = float(s.remaining_budget)
        packed = np.asarray(s.packed_items).astype(bool)
        if ps is None:
            return ["reset_all_items_fit_together"] if float(w.sum()) <= rem else ["reset_items_exceed_budget"]
        a = int(action)
        p_packed = np.asarray(ps.packed_items).astype(bool)
        p_rem = float(ps.remaining_budget)
        if not self.legal(ps, env)[a]:
            return ["ended_invalid_action", "invalid_already_packed" if p_packed[a] else "invalid_too_heavy"]
        ev = ["item_packed"]
        if float(np.asarray(ps.weights)[a]) == p_rem:
            ev.append("weight_equals_remaining_budget")
        if rem == 0.0:
            ev.append("budget_exactly_exhausted")
        if rem < 0.0:
            ev.append("remaining_budget_below_zero")
        open_ = ~packed
        if (open_ & (w > rem)).any():
            ev.append("unpacked_item_no_longer_fits")
        tol = 1e-5 * max(1.0, abs(rem)) + 1e-6
        if (open_ & (np.abs(w - rem) < tol)).any():
            ev.append("item_within_rounding_of_remaining_budget")
        if not open_.any():
            ev.append("ended_all_items_packed")
        elif not (open_ & (w <= rem)).any():
            ev.append("ended_no_item_fits")
            if int(packed.sum()) == 1:
                ev.append("ended_after_one_item")
        return ev

    # ---- C12 -------------------------------------------------------------------------------------
    def observe(self, s, obs, env, cfg):
        for f in ("weights", "values", "packed_items"):
            a, b = np.asarray(getattr(obs, f)), np.asarray(getattr(s, f))
            if a.shape != b.shape or a.tobytes() != b.tobytes():
                return (f, f"obs.{f} {a.tolist()} != state.{f} {b.tolist()}")
        m = np.asarray(obs.action_mask).astype(bool)
        want = self.legal(s, env)  # "which items can be packed": not packed and weight <= remaining budget
        if not np.array_equal(m, want):
            i = int(np.flatnonzero(m != want)[0])
            return ("action_mask", f"obs.action_mask[{i}] = {bool(m[i])} but {self.describe(s, env, (i,))}")
        return None

    # ---- policies ----------------------------------------------------------------------------------
    def policy_complete(self, s, env, rng, legal):
        """Lightest legal item first (packs the most items: the longest episodes)."""
        if legal is None or not legal.any():
            return None
        w = np.where(legal, np.asarray(s.weights), np.inf)
        return int(np.argmin(w))

    def policy_survive(self, s, env, rng, legal):
        """Heaviest legal item first (adversarial fill order: the bag is filled to the brim early)."""
        if legal is None or not legal.any():
            return None
        w = np.where(legal, np.asarray(s.weights), -np.inf)
        return int(np.argmax(w))
