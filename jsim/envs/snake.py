"""Snake: rules written from docs/environments/snake.md and the class docstring.

Board of num_rows x num_cols. Actions 0..3 = up, right, down, left. The snake moves its head one
cell; it grows by one when the head lands on the fruit (the tail then stays), otherwise the tail
cell is vacated. A move is legal iff the new head is inside the board and not on a body cell other
than the current tail. Reward +1 per fruit. The episode ends on an illegal move, when the snake
fills the board, or at the time limit.
"""
from __future__ import annotations

from typing import Any, Dict, List, Optional, Tuple

import numpy as np

from jsim.envs._mk import cfg, cross_tl
from jsim.envs.base import Adapter

DELTA = [(-1, 0), (0, 1), (1, 0), (0, -1)]


class A(Adapter):
    name = "Snake"
    mask_mode = "flat"
    terminate_on_invalid = True
    has_invalid_effect = True
    has_physical = True
    has_objective = True
    objective_without_end = True
    has_model = True
    has_observer = True

    def configs(self):
        base = [cfg("r12c12", True, r=12, c=12, tl=None), cfg("r4c7", True, r=4, c=7, tl=None),  # r7c4: the transposed board (same number of cells, other layout) right after it
                cfg("r7c4", True, r=7, c=4, tl=None),
                cfg("r3c3", r=3, c=3, tl=None),
                cfg("r4c3", True, r=4, c=3, tl=None)]  # tiny board with a Hamiltonian cycle: filling the whole board is reachable
        return cross_tl(base, [1, 2, 3, 7])

    def build(self, c):
        from jumanji.environments import Snake
        kw = {} if c.get("tl") is None else {"time_limit": c["tl"]}
        env = Snake(c["r"], c["c"], c["tl"]) if c.get("tl") == 2 else Snake(num_rows=c["r"], num_cols=c["c"], **kw)  # (time_limit = 2 configurations pass the documented leading parameters positionally)
        if c.get("mirror"):  # wrapped environment (C13/C14 only)
            from jsim import fakes
            env = fakes.mirror_obs_wrapper(env)
        return env

    def time_limit(self, env, c):
        return 4000 if c.get("tl") is None else c["tl"]

    # ---- rules ---------------------------------------------------------------------------------
    @staticmethod
    def _head(s: Any) -> Tuple[int, int]:
        return int(s.head_position.row), int(s.head_position.col)

    def legal(self, s: Any, env: Any) -> np.ndarray:
        bs = np.asarray(s.body_state)
        R, C = bs.shape
        r, c = self._head(s)
        out = np.zeros(4, bool)
        for a, (dr, dc) in enumerate(DELTA):
            nr, nc = r + dr, c + dc
            if 0 <= nr < R and 0 <= nc < C and bs[nr, nc] <= 1:  # free, or the tail which moves away
                out[a] = True
        return out

    def describe(self, s, env, idx):
        return f"head={self._head(s)} length={int(s.length)} body_state=\n{np.asarray(s.body_state)}"

    # ---- C05 -------------------------------------------------------------------------------------
    def invalid_effect(self, ps, action, illegal, s, ts, env, cfg):
        if int(ts.step_type) != 2:
            return ("invalid_move_not_terminal", f"step_type {int(ts.step_type)} after an illegal move (head {self._head(ps)})")
        if float(ts.reward) != 0.0:
            return ("invalid_move_reward", f"reward {float(ts.reward)} != 0 on an illegal move")
        if float(ts.discount) != 0.0:
            return ("invalid_move_discount", f"discount {float(ts.discount)} != 0 on the terminal step")
        return None

    # ---- C07 -------------------------------------------------------------------------------------
    def physical(self, ps, action, s, ts, env, cfg):
        bs = np.asarray(s.body_state)
        R, C = bs.shape
        L = int(s.length)
        r, c = self._head(s)
        if not (0 <= r < R and 0 <= c < C):
            return ("head_outside_grid", f"head {(r, c)} outside {R}x{C}")
        if L < 1 or int(bs.max()) != L:
            return ("length_disagrees_with_body", f"length {L} but max body_state {int(bs.max())}")
        vals = np.sort(bs[bs > 0])
        if not np.array_equal(vals, np.arange(1, L + 1)):
            return ("body_not_numbered_1_to_length", f"body_state values {vals.tolist()} for length {L}")
        if bs[r, c] != L:
            return ("head_not_end_of_chain", f"body_state at head {(r, c)} is {int(bs[r, c])}, length {L}")
        pos = {int(bs[i, j]): (i, j) for i, j in np.argwhere(bs > 0)}
        for k in range(1, L):
            (a, b), (a2, b2) = pos[k], pos[k + 1]
            if abs(a - a2) + abs(b - b2) != 1:
                return ("body_chain_not_adjacent", f"segments {k}@{pos[k]} and {k + 1}@{pos[k + 1]} are not 4-adjacent")
        if not np.array_equal(np.asarray(s.body).astype(bool), bs > 0):
            return ("body_disagrees_with_body_state", "state.body != (body_state > 0)")
        if not np.array_equal(np.asarray(s.tail).astype(bool), bs == 1):
            return ("tail_disagrees_with_body_state", "state.tail != (body_state == 1)")
        fr, fc = int(s.fruit_position.row), int(s.fruit_position.col)
        if not (0 <= fr < R and 0 <= fc < C):
            return ("fruit_outside_grid", f"fruit {(fr, fc)}")
        if bs[fr, fc] > 0:
            return ("fruit_on_body", f"fruit {(fr, fc)} lies on body segment {int(bs[fr, fc])}")
        return None

    # ---- C08 -------------------------------------------------------------------------------------
    def objective(self, hist, env, cfg):
        return float(int(hist[-1].state.length) - 1)  # fruits eaten

    # ---- C09 -------------------------------------------------------------------------------------
    def model_step(self, ps, action, s, ts, env, cfg):
        a = int(action)
        legal = self.legal(ps, env)[a]
        bs = np.asarray(ps.body_state)
        R, C = bs.shape
        r, c = self._head(ps)
        nr, nc = r + DELTA[a][0], c + DELTA[a][1]
        eaten = (nr, nc) == (int(ps.fruit_position.row), int(ps.fruit_position.col))
        L = int(ps.length) + int(eaten)
        tl = self.time_limit(env, cfg)
        sc = int(ps.step_count) + 1
        if int(s.step_count) != sc:
            return ("step_count", f"step_count {int(s.step_count)} expected {sc}")
        want_reward = 1.0 if eaten else 0.0
        if abs(float(ts.reward) - want_reward) > 1e-6:
            return ("reward", f"reward {float(ts.reward)} expected {want_reward}")
        if legal:
            nb = bs.copy() if eaten else np.clip(bs - 1, 0, None)
            nb[nr, nc] = L
            if not np.array_equal(np.asarray(s.body_state), nb):
                return ("body_state", f"body_state differs from the rules after a legal move {a} from head {(r, c)}:\n{np.asarray(s.body_state)}\nvs\n{nb}")
            if self._head(s) != (nr, nc):
                return ("head", f"head {self._head(s)} expected {(nr, nc)}")
            if int(s.length) != L:
                return ("length", f"length {int(s.length)} expected {L}")
            full = bool((nb > 0).all())
            fr, fc = int(s.fruit_position.row), int(s.fruit_position.col)
            if eaten and not full:
                if not (0 <= fr < R and 0 <= fc < C) or nb[fr, fc] > 0:
                    return ("new_fruit_on_body", f"new fruit {(fr, fc)} is not on a free cell")
            if not eaten and (fr, fc) != (int(ps.fruit_position.row), int(ps.fruit_position.col)):
                return ("fruit_moved", f"fruit moved to {(fr, fc)} without being eaten")
            done = full or sc >= tl
        else:
            done = True
        if (int(ts.step_type) == 2) != done:
            return ("termination", f"step_type {int(ts.step_type)} but the rules say done={done} (legal={bool(legal)}, step {sc}/{tl})")
        return None

    # ---- C11 -------------------------------------------------------------------------------------
    def end_cause(self, ps, action, s, ts, env, cfg):
        if not self.legal(ps, env)[int(action)]:
            return "invalid_action"
        if bool((np.asarray(s.body_state) > 0).all()):
            return "board_full"
        return None

    # ---- reach probes ------------------------------------------------------------------------------
    def events(self, ps, action, s, ts, env, cfg):
        bs = np.asarray(s.body_state)
        R, C = bs.shape
        if ps is None:
            r, c = self._head(s)
            fr, fc = int(s.fruit_position.row), int(s.fruit_position.col)
            return ((["reset_nonsquare"] if R != C else []) + (["reset_fruit_adjacent_to_head"] if abs(r - fr) + abs(c - fc) == 1 else [])
                    + (["reset_head_in_corner"] if r in (0, R - 1) and c in (0, C - 1) else []))
        pbs = np.asarray(ps.body_state)
        a = int(action)
        r, c = self._head(ps)
        nr, nc = r + DELTA[a][0], c + DELTA[a][1]
        if not (0 <= nr < R and 0 <= nc < C):
            return ["end_invalid_move_off_board"]
        if pbs[nr, nc] > 1:
            return ["end_invalid_move_into_body"]
        ev = []
        if pbs[nr, nc] == 1:
            ev.append("move_onto_vacating_tail_cell")
            if int(ps.length) == 2:
                ev.append("reverse_onto_tail_length_2")
        if (nr, nc) == (int(ps.fruit_position.row), int(ps.fruit_position.col)):
            ev.append("fruit_eaten")
        if bool((bs > 0).all()):
            ev.append("end_board_full")
        elif not self.legal(s, env).any():
            ev.append("surrounded_no_legal_move")
        elif int(self.legal(s, env).sum()) == 1:
            ev.append("single_legal_move_left")
        if 2 * int(s.length) >= R * C:
            ev.append("length_at_least_half_board")
        return ev

    # ---- C12 -------------------------------------------------------------------------------------
    def observe(self, s, obs, env, cfg):
        bs = np.asarray(s.body_state)
        R, C = bs.shape
        g = np.asarray(obs.grid)
        if g.shape != (R, C, 5):
            return ("grid_shape", f"{g.shape}")
        head = np.zeros((R, C))
        r, c = self._head(s)
        if 0 <= r < R and 0 <= c < C:
            head[r, c] = 1
        fruit = np.zeros((R, C))
        fr, fc = int(s.fruit_position.row), int(s.fruit_position.col)
        if 0 <= fr < R and 0 <= fc < C:
            fruit[fr, fc] = 1
        planes = [(bs > 0).astype(float), head, (bs == 1).astype(float), fruit, bs / max(1, int(bs.max()))]
        names = ["body", "head", "tail", "fruit", "normalised_body_order"]
        inside = 0 <= r < R and 0 <= c < C  # after an out-of-board (terminal) move the head plane is unspecified
        for k, (p, n) in enumerate(zip(planes, names)):
            if n == "head" and not inside:
                continue
            if not np.allclose(g[..., k], p, atol=1e-6):
                i = np.argwhere(~np.isclose(g[..., k], p, atol=1e-6))[0]
                return (f"plane_{n}", f"plane {n} at {i.tolist()} = {g[..., k][tuple(i)]} expected {p[tuple(i)]}")
        if int(obs.step_count) != int(s.step_count):
            return ("step_count", f"obs {int(obs.step_count)} vs state {int(s.step_count)}")
        if not np.array_equal(np.asarray(obs.action_mask), np.asarray(s.action_mask)):
            return ("action_mask", "obs.action_mask != state.action_mask")
        return None

    # ---- policies ----------------------------------------------------------------------------------
    def policy_survive(self, s, env, rng, legal):
        if legal is None or not legal.any():
            return None
        bs = np.asarray(s.body_state)
        R, C = bs.shape
        r, c = self._head(s)
        best, best_a = -1, None
        order = [int(a) for a in rng.permutation(4)]
        for a in order:
            if not legal[a]:
                continue
            nr, nc = r + DELTA[a][0], c + DELTA[a][1]
            blocked = bs > 1
            seen = {(nr, nc)}
            stack = [(nr, nc)]
            while stack and len(seen) < 64:
                i, j = stack.pop()
                for dr, dc in DELTA:
                    ii, jj = i + dr, j + dc
                    if 0 <= ii < R and 0 <= jj < C and not blocked[ii, jj] and (ii, jj) not in seen:
                        seen.add((ii, jj))
                        stack.append((ii, jj))
            if len(seen) > best:
                best, best_a = len(seen), a
        return best_a

    @staticmethod
    def _hamiltonian_next(R: int, C: int, r: int, c: int):
        """Successor of (r, c) on a fixed Hamiltonian cycle of an R x C board with R even: column 0 is the
        return lane (upwards); rows are swept boustrophedon over columns 1..C-1."""
        if C < 2 or R % 2:
            return None
        if c == 0:
            return (r - 1, 0) if r > 0 else (0, 1)
        if r % 2 == 0:  # sweeping right on even rows
            return (r, c + 1) if c < C - 1 else (r + 1, c)
        if c > 1:       # sweeping left on odd rows
            return (r, c - 1)
        return (r + 1, 1) if r < R - 1 else (r, 0)

    def policy_complete(self, s, env, rng, legal):
        """Fill the whole board by following a Hamiltonian cycle where one exists (small boards), else head
        for the fruit (greedy, legal moves only)."""
        if legal is None or not legal.any():
            return None
        bs = np.asarray(s.body_state)
        R, C = bs.shape
        if R * C <= 64:
            r, c = self._head(s)
            nxt = self._hamiltonian_next(R, C, r, c)
            if nxt is None and C % 2 == 0:  # transpose the construction when only the column count is even
                t = self._hamiltonian_next(C, R, c, r)
                nxt = None if t is None else (t[1], t[0])
            if nxt is not None:
                for a, (dr, dc) in enumerate(DELTA):
                    if (r + dr, c + dc) == nxt and legal[a]:
                        return a
        r, c = self._head(s)
        fr, fc = int(s.fruit_position.row), int(s.fruit_position.col)
        best, best_a = None, None
        for a in [int(x) for x in rng.permutation(4)]:
            if legal[a]:
                d = abs(r + DELTA[a][0] - fr) + abs(c + DELTA[a][1] - fc)
                if best is None or d < best:
                    best, best_a = d, a
        return best_a
