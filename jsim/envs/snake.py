from jsim.envs.base import Adapter
from jsim.envs._mk import cfg, cross_tl


class A(Adapter):
    name = "Snake"
    mask_mode = "flat"
    terminate_on_invalid = True

    def configs(self):
        base = [cfg("r12c12", True, r=12, c=12, tl=None), cfg("r4c7", True, r=4, c=7, tl=None), cfg("r7c4", r=7, c=4, tl=None),
                cfg("r3c3", r=3, c=3, tl=None)]
        return cross_tl(base, [1, 2, 3, 7])

    def build(self, c):
        from jumanji.environments import Snake
        kw = {} if c.get("tl") is None else {"time_limit": c["tl"]}
        return Snake(num_rows=c["r"], num_cols=c["c"], **kw)

    def time_limit(self, env, c):
        return 4000 if c.get("tl") is None else c["tl"]
