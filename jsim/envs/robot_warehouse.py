from jsim.envs.base import Adapter
from jsim.envs._mk import cfg, cross_tl


class A(Adapter):
    name = "RobotWarehouse"
    mask_mode = "per_agent"
    noop = 0
    fork_every = 4

    def configs(self):
        base = [cfg("default", True, sr=2, sc=3, h=8, a=4, rng=1, q=8, tl=None), cfg("s1c3h1a2r2q2", True, sr=1, sc=3, h=1, a=2, rng=2, q=2, tl=None),
                cfg("s1c3h3a3r1q4", sr=1, sc=3, h=3, a=3, rng=1, q=4, tl=None), cfg("s2c1h2a1r2q3", sr=2, sc=1, h=2, a=1, rng=2, q=3, tl=None)]
        return cross_tl(base, [1, 2, 3, 7])

    def build(self, c):
        from jumanji.environments import RobotWarehouse
        from jumanji.environments.routing.robot_warehouse.generator import RandomGenerator
        g = RandomGenerator(shelf_rows=c["sr"], shelf_columns=c["sc"], column_height=c["h"], num_agents=c["a"],
                            sensor_range=c["rng"], request_queue_size=c["q"])
        kw = {} if c.get("tl") is None else {"time_limit": c["tl"]}
        return RobotWarehouse(generator=g, **kw)

    def time_limit(self, env, c):
        return 500 if c.get("tl") is None else c["tl"]
