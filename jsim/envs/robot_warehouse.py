"""RobotWarehouse: rules written from docs/environments/robot_warehouse.md, the class docstring (floor plan) and
the observation description in the docstrings of `calculate_num_observation_features` / `get_agent_view`.

Conventions (learned from types/generator): `Position(x, y)` is (row, column) into `grid[channel, row, col]`;
channel 0 holds shelf id + 1, channel 1 agent id + 1 (0 = empty). Directions 0 up (row-1), 1 right (col+1),
2 down (row+1), 3 left (col-1). Actions 0 noop, 1 forward, 2 turn left, 3 turn right, 4 toggle load.
Floor plan (docstring picture): height (column_height+1)*shelf_rows+2, width 3*shelf_columns+1; shelf cells
are the two-wide clusters between the single-cell aisles, minus the bottom-middle cluster; every other cell
is "highway"; the two goal cells are the middle cells of the last row.

Documented rules used here: an agent that carries a shelf cannot walk into a cell that holds another shelf
(that forward is the only masked action; it is ignored like a noop); the episode ends when agents collide or
at the time limit; the reward/request-queue dynamics are not modelled (no C09 model).
"""
from __future__ import annotations

from collections import deque
from typing import Any, Dict, List, Optional, Tuple

import numpy as np

from jsim.envs._mk import cfg, cross_tl
from jsim.envs.base import Adapter

DIRS = [(-1, 0), (0, 1), (1, 0), (0, -1)]  # up, right, down, left as (d_row, d_col)
NOOP, FORWARD, LEFT, RIGHT, TOGGLE = 0, 1, 2, 3, 4


def highways(sr: int, sc: int, h: int) -> np.ndarray:
    """Boolean (H, W) floor plan from the class docstring: True = aisle / delivery area, False = shelf location."""
    H, W = (h + 1) * sr + 2, 3 * sc + 1
    shelf = np.zeros((H, W), bool)
    for r in range(H):
        for c in range(W):
            in_cluster_col = c % 3 != 0
            in_cluster_row = r % (h + 1) != 0 and r < (h + 1) * sr
            shelf[r, c] = in_cluster_col and in_cluster_row
    mid = (W // 2 - 1, W // 2)  # the bottom-middle cluster is removed so agents can queue in front of the goals
    for r in range((h + 1) * (sr - 1) + 1, H):
        for c in mid:
            shelf[r, c] = False
    return ~shelf


class A(Adapter):
    name = "RobotWarehouse"
    run_scale = 1
    mask_mode = "per_agent"
    noop = 0
    fork_every = 1  # illegal actions are rare here (a carrier facing a shelf): fork whenever there is one
    has_invalid_effect = True
    has_physical = True
    has_observer = True

    def configs(self):
        base = [cfg("default", True, sr=2, sc=3, h=8, a=4, rng=1, q=8, tl=None), cfg("s1c3h1a2r2q2", True, sr=1, sc=3, h=1, a=2, rng=2, q=2, tl=None),
                cfg("s1c3h3a3r1q4", sr=1, sc=3, h=3, a=3, rng=1, q=4, tl=None), cfg("s2c1h2a1r2q3", sr=2, sc=1, h=2, a=1, rng=2, q=3, tl=None),
                # same grid size as the default (20x10) but another floor plan: same-shape, different-parameter variant
                cfg("s3c3h5a4r1q8", sr=3, sc=3, h=5, a=4, rng=1, q=8, tl=None),
                # the default floor plan with another request-queue size (everything but the queue is shared with the default)
                cfg("defaultq4", sr=2, sc=3, h=8, a=4, rng=1, q=4, tl=None)]
        return cross_tl(base, [1, 2, 3, 7])

    def build(self, c):
        from jumanji.environments import RobotWarehouse
        from jumanji.environments.routing.robot_warehouse.generator import RandomGenerator
        g = RandomGenerator(shelf_rows=c["sr"], shelf_columns=c["sc"], column_height=c["h"], num_agents=c["a"],
                            sensor_range=c["rng"], request_queue_size=c["q"])
        if c.get("tl") == 2:
            return RobotWarehouse(g, c["tl"])  # (time_limit = 2 configurations pass the documented leading parameters positionally)
        kw = {} if c.get("tl") is None else {"time_limit": c["tl"]}
        return RobotWarehouse(generator=g, **kw)

    def time_limit(self, env, c):
        return 500 if c.get("tl") is None else c["tl"]

    # ---- entity tables -----------------------------------------------------------------------------
    @staticmethod
    def _agents(s: Any) -> List[Tuple[int, int, int, int]]:
        """[(row, col, direction, carrying)] per agent."""
        a = s.agents
        xs, ys = np.asarray(a.position.x).reshape(-1), np.asarray(a.position.y).reshape(-1)
        d, c = np.asarray(a.direction).reshape(-1), np.asarray(a.is_carrying).reshape(-1)
        return [(int(xs[i]), int(ys[i]), int(d[i]), int(c[i])) for i in range(len(xs))]

    @staticmethod
    def _shelves(s: Any) -> List[Tuple[int, int, int]]:
        """[(row, col, requested)] per shelf."""
        sh = s.shelves
        xs, ys = np.asarray(sh.position.x).reshape(-1), np.asarray(sh.position.y).reshape(-1)
        rq = np.asarray(sh.is_requested).reshape(-1)
        return [(int(xs[j]), int(ys[j]), int(rq[j])) for j in range(len(xs))]

    @staticmethod
    def _ahead(shape: Tuple[int, int], r: int, c: int, d: int) -> Optional[Tuple[int, int]]:
        nr, nc = r + DIRS[d][0], c + DIRS[d][1]
        if 0 <= nr < shape[0] and 0 <= nc < shape[1]:
            return nr, nc
        return None

    # ---- C04 -------------------------------------------------------------------------------------
    def legal_bounds(self, s: Any, env: Any):
        ag = self._agents(s)
        shape = tuple(np.asarray(s.grid).shape[1:])
        shelf_cells = {(r, c) for r, c, _ in self._shelves(s)}
        hi = np.ones((len(ag), 5), bool)
        lo = np.ones((len(ag), 5), bool)
        for i, (r, c, d, carrying) in enumerate(ag):
            t = self._ahead(shape, r, c, d)
            if t is None:
                # forward against the outer wall: the only documented reason for an invalid action is "carrying a shelf and collides with
                # another shelf" (utils.is_valid_action docstring; docs: the mask says which action is legal) - there is no shelf ahead, so
                # the move is legal (the agent just stays) and must not be hidden, whether the agent carries a shelf or not
                pass
            elif carrying and t in shelf_cells:
                lo[i, FORWARD] = hi[i, FORWARD] = False
        return lo, hi

    def describe(self, s, env, idx):
        i = int(idx[0])
        r, c, d, carrying = self._agents(s)[i]
        t = self._ahead(tuple(np.asarray(s.grid).shape[1:]), r, c, d)
        shelf_cells = {(x, y) for x, y, _ in self._shelves(s)}
        return f"agent {i} at (row, col)=({r}, {c}) facing {d} carrying={carrying}; cell ahead {t} holds a shelf: {t in shelf_cells}"

    # ---- C05 -------------------------------------------------------------------------------------
    def _collision(self, ps: Any, s: Any) -> bool:
        """Two agents end on one cell, swap cells, or one enters the cell another one is leaving in the same step
        (the docs only say "collide"; every reading is accepted as a cause)."""
        new = [(r, c) for r, c, _, _ in self._agents(s)]
        if len(set(new)) != len(new):
            return True
        if ps is None:
            return False
        old = [(r, c) for r, c, _, _ in self._agents(ps)]
        for i in range(len(new)):
            if new[i] != old[i]:
                for j in range(len(new)):
                    if j != i and new[i] == old[j]:
                        return True
        return False

    def invalid_effect(self, ps, action, illegal, s, ts, env, cfg):
        # Judged: the agents that played the illegal forward (C05: "the acting entity keeps its position and holdings").
        # What a *noop* of the other agents does is not C05's business.
        before, after = self._agents(ps), self._agents(s)
        for i in illegal:
            if before[i][:3] != after[i][:3]:
                return ("agent_moved_on_ignored_action", f"agent {i} played an illegal forward but went (row, col, dir) {before[i][:3]} -> {after[i][:3]}")
        psh, sh = self._shelves(ps), self._shelves(s)
        frozen = {before[i][:2] for i in illegal}
        for j in range(len(sh)):
            if psh[j][:2] != sh[j][:2] and psh[j][:2] in frozen:
                return ("shelf_moved_on_ignored_action", f"shelf {j} left {psh[j][:2]} although the agent there did not move")
        if int(ts.step_type) == 2:
            if int(s.step_count) < self.time_limit(env, cfg) and not self._collision(ps, s):
                return ("invalid_move_ended_episode", f"LAST at step {int(s.step_count)} after an ignored forward without collision or time limit")
        for i in illegal:  # checked last so that the other classes stay visible
            if before[i][3] != after[i][3]:
                return ("holdings_changed_on_ignored_action", f"agent {i} at (row, col)={before[i][:2]} played an illegal forward (carrying a shelf into "
                        f"a shelf) and its is_carrying went {before[i][3]} -> {after[i][3]}: the ignored move made it drop its shelf")
        return None

    # ---- C07 -------------------------------------------------------------------------------------
    def physical(self, ps, action, s, ts, env, cfg):
        grid = np.asarray(s.grid)
        H, W = grid.shape[1:]
        ag, sh = self._agents(s), self._shelves(s)
        cells = [(r, c) for r, c, _, _ in ag]
        for i, (r, c, d, carrying) in enumerate(ag):
            if not (0 <= r < H and 0 <= c < W):
                return ("agent_outside_grid", f"agent {i} at {(r, c)} outside {H}x{W}")
            if d not in (0, 1, 2, 3):
                return ("agent_direction", f"agent {i} direction {d}")
        if len(set(cells)) != len(cells):
            return ("agents_share_cell", f"agent cells {cells}")
        want = np.zeros((H, W), dtype=np.int64)
        for i, (r, c) in enumerate(cells):
            want[r, c] = i + 1
        if not np.array_equal(grid[1], want):
            k = np.argwhere(grid[1] != want)[0]
            return ("agent_channel_disagrees", f"grid[_AGENTS]{k.tolist()} = {int(grid[1][tuple(k)])} but the agent table says {int(want[tuple(k)])}")
        scells = [(r, c) for r, c, _ in sh]
        for j, (r, c) in enumerate(scells):
            if not (0 <= r < H and 0 <= c < W):
                return ("shelf_outside_grid", f"shelf {j} at {(r, c)}")
        if len(set(scells)) != len(scells):
            return ("shelves_share_cell", "two shelves on one cell")
        wants = np.zeros((H, W), dtype=np.int64)
        for j, (r, c) in enumerate(scells):
            wants[r, c] = j + 1
        if not np.array_equal(grid[0], wants):
            k = np.argwhere(grid[0] != wants)[0]
            return ("shelf_channel_disagrees", f"grid[_SHELVES]{k.tolist()} = {int(grid[0][tuple(k)])} but the shelf table says {int(wants[tuple(k)])}")
        n_shelves = int((~highways(cfg["sr"], cfg["sc"], cfg["h"])).sum())
        if len(sh) != n_shelves or int((grid[0] > 0).sum()) != n_shelves:
            return ("shelf_count", f"{len(sh)} shelves in the table, {int((grid[0] > 0).sum())} on the floor, floor plan has {n_shelves}")
        for i, (r, c, d, carrying) in enumerate(ag):
            if carrying and (r, c) not in set(scells):
                return ("carrier_without_shelf", f"agent {i} at {(r, c)} is carrying but no shelf is on its cell")
        q = [int(v) for v in np.asarray(s.request_queue).reshape(-1)]
        if len(set(q)) != len(q):
            return ("request_queue_duplicate", f"request_queue {q}")
        if any(not (0 <= v < len(sh)) for v in q):
            return ("request_queue_range", f"request_queue {q} with {len(sh)} shelves")
        flagged = sorted(j for j, (_, _, rq) in enumerate(sh) if rq)
        if flagged != sorted(q):
            return ("request_queue_vs_is_requested", f"request_queue {sorted(q)} but is_requested marks {flagged}")
        if ps is not None:
            pa, psh = self._agents(ps), self._shelves(ps)
            if len(psh) != len(sh):
                return ("shelf_count", f"{len(psh)} -> {len(sh)} shelves")
            for j in range(len(sh)):
                if psh[j][:2] != sh[j][:2]:
                    # a shelf only moves under the agent that carried it
                    ok = any(pa[i][3] and pa[i][:2] == psh[j][:2] and ag[i][:2] == sh[j][:2] for i in range(len(ag)))
                    if not ok:
                        return ("shelf_moved_without_carrier", f"shelf {j} moved {psh[j][:2]} -> {sh[j][:2]} without a carrying agent making that move")
        return None

    # ---- C11 -------------------------------------------------------------------------------------
    def end_cause(self, ps, action, s, ts, env, cfg):
        return "collision" if self._collision(ps, s) else None

    # ---- reach probes ------------------------------------------------------------------------------
    def events(self, ps, action, s, ts, env, cfg):
        ag1, sh1 = self._agents(s), self._shelves(s)
        if ps is None:
            under = any(rq and (r, c) in {(x, y) for x, y, _, _ in ag1} for r, c, rq in sh1)
            return ((["reset_multi_agent"] if len(ag1) > 1 else ["reset_single_agent"]) + (["reset_agent_under_requested_shelf"] if under else [])
                    + (["reset_agent_carrying"] if any(a[3] for a in ag1) else []))
        ag0, sh0 = self._agents(ps), self._shelves(ps)
        hw = highways(cfg["sr"], cfg["sc"], cfg["h"])
        shelf0 = {(r, c): rq for r, c, rq in sh0}
        acts = [int(a) for a in action]
        ev, target = [], []
        for i, (r, c, d, carrying) in enumerate(ag0):
            t, a = self._ahead(hw.shape, r, c, d), acts[i]
            target.append((r, c))
            if t is None and carrying:
                ev.append("carrier_faces_outer_wall")
            if a == FORWARD:
                if t is None:
                    ev.append("forward_against_outer_wall")
                elif carrying and t in shelf0:
                    ev.append("carrying_agent_blocked_by_shelf")
                    carriers = [j for j, (r2, c2, _, k2) in enumerate(ag0) if (r2, c2) == t and k2]
                    if carriers:
                        ev.append("carrying_agent_blocked_by_shelf_another_agent_carries")
                        if acts[carriers[0]] == FORWARD and ag1[carriers[0]][:2] != ag0[carriers[0]][:2]:
                            ev.append("blocking_carrier_moves_away_in_the_same_step")
                else:
                    target[i] = t
                    ev.append("carried_shelf_moved" if carrying else "unloaded_agent_moves_under_shelf" if t in shelf0 else "unloaded_agent_moves_on_floor")
            elif a == TOGGLE:
                now = ag1[i][3]
                if carrying:
                    ev.append("shelf_put_down" if not now else "put_down_refused_on_highway" if hw[r, c] else "put_down_not_carried_out")
                elif now:
                    ev.append("requested_shelf_picked_up" if shelf0.get((r, c)) else "unrequested_shelf_picked_up")
                else:
                    ev.append("toggle_without_shelf" if (r, c) not in shelf0 else "pick_up_not_carried_out")
        old = [(r, c) for r, c, _, _ in ag0]
        pairs = [(i, j) for i in range(len(old)) for j in range(len(old)) if i != j]
        if any(target[i] == target[j] for i, j in pairs):
            ev.append("collision_two_agents_one_cell")
        if any(target[i] == old[j] and target[j] == old[i] for i, j in pairs):
            ev.append("collision_agents_swap_cells")
        if any(target[i] != old[i] and target[i] == old[j] and target[j] not in (old[j], old[i]) for i, j in pairs):
            ev.append("agent_enters_cell_another_is_leaving")
        if self._collision(ps, s) and int(ts.step_type) == 2:
            ev.append("end_agent_collision")
        if float(np.asarray(ts.reward).sum()) > 0:
            ev.append("shelf_delivered_reward")
        # state-based: a carrying agent faces the shelf another agent carries (a queue of carriers); and the carrier in front
        # has the lower index and a free cell ahead (it can legally pull its shelf away in the very step the follower pushes)
        shelf1 = {(r, c) for r, c, _ in sh1}
        at1 = {(r, c): j for j, (r, c, _, _) in enumerate(ag1)}
        for i, (r, c, d, carrying) in enumerate(ag1):
            t = self._ahead(hw.shape, r, c, d)
            if carrying and t is not None and t in at1 and ag1[at1[t]][3]:
                ev.append("state_carrier_queues_behind_carrier")
                j = at1[t]
                t2 = self._ahead(hw.shape, ag1[j][0], ag1[j][1], ag1[j][2])
                if j < i and t2 is not None and t2 not in shelf1 and t2 not in at1:
                    ev.append("state_front_carrier_lower_index_and_free_to_move")
        if sum(1 for a in acts if a == FORWARD) >= 2:
            ev.append("agents_moving_simultaneously_ge2")
        if sum(1 for a in acts if a != NOOP) >= 2:
            ev.append("agents_acting_simultaneously_ge2")
        return ev

    # ---- C12 -------------------------------------------------------------------------------------
    def observe(self, s, obs, env, cfg):
        if int(obs.step_count) != int(s.step_count):
            return ("step_count", f"obs {int(obs.step_count)} vs state {int(s.step_count)}")
        if not np.array_equal(np.asarray(obs.action_mask), np.asarray(s.action_mask)):
            return ("action_mask", "obs.action_mask != state.action_mask")
        rng = int(cfg["rng"])
        hw = highways(cfg["sr"], cfg["sc"], cfg["h"])
        H, W = hw.shape
        ag, sh = self._agents(s), self._shelves(s)
        view = np.asarray(obs.agents_view)
        S = (2 * rng + 1) ** 2
        n_feat = 8 + (S - 1) * 5 + S * 2
        if view.shape != (len(ag), n_feat):
            return ("agents_view_shape", f"{view.shape} expected {(len(ag), n_feat)}")
        cells = [(r, c) for r, c, _, _ in ag]
        grid = np.asarray(s.grid)
        consistent = len(set(cells)) == len(cells) and all(grid[1][r, c] == i + 1 for i, (r, c) in enumerate(cells)) \
            and int((grid[1] > 0).sum()) == len(cells)
        if not consistent:
            return None  # collision (terminal) state: who is "on" a shared cell is unspecified - the views are not judged
        agent_at = {rc: i for i, rc in enumerate(cells)}
        shelf_at = {(r, c): j for j, (r, c, _) in enumerate(sh)}
        for i, (r, c, d, carrying) in enumerate(ag):
            want: List[int] = [r, c, carrying] + [1 if k == d else 0 for k in range(4)] + [int(hw[r, c])]
            window = [(r + dr, c + dc) for dr in range(-rng, rng + 1) for dc in range(-rng, rng + 1)]
            for rc in window:
                if rc == (r, c):
                    continue
                j = agent_at.get(rc)
                want += [0, 0, 0, 0, 0] if j is None else [1] + [1 if k == ag[j][2] else 0 for k in range(4)]
            for rc in window:
                j = shelf_at.get(rc)
                want += [0, 0] if j is None else [1, int(sh[j][2])]
            w = np.asarray(want)
            if not np.array_equal(view[i], w):
                k = int(np.flatnonzero(view[i] != w)[0])
                return ("agents_view", f"agent {i} at {(r, c)} dir {d}: feature {k} is {int(view[i][k])} expected {int(w[k])} "
                        f"(layout: 8 own, {(S - 1) * 5} other-agent, {S * 2} shelf features)")
        return None

    # ---- policies ----------------------------------------------------------------------------------
    def policy_survive(self, s, env, rng, legal):
        """Everybody turns / waits / toggles in place; at most one agent walks, and only into a cell no agent is on."""
        ag = self._agents(s)
        shape = tuple(np.asarray(s.grid).shape[1:])
        occupied = {(r, c) for r, c, _, _ in ag}
        out = [int(rng.choice([NOOP, LEFT, RIGHT, TOGGLE])) for _ in ag]
        i = int(rng.integers(0, len(ag)))
        r, c, d, _ = ag[i]
        t = self._ahead(shape, r, c, d)
        if t is not None and t not in occupied and (legal is None or legal[i, FORWARD]) and rng.random() < 0.7:
            out[i] = FORWARD
        return out

    @staticmethod
    def _turn_towards(d: int, want: int) -> int:
        if d == want:
            return FORWARD
        return RIGHT if (want - d) % 4 == 1 else LEFT

    def policy_collide(self, s, env, rng, legal):
        """Every agent heads for the nearest other agent."""
        ag = self._agents(s)
        if len(ag) < 2:
            return None
        out = []
        for i, (r, c, d, _) in enumerate(ag):
            others = [(abs(r - r2) + abs(c - c2), j) for j, (r2, c2, _, _) in enumerate(ag) if j != i]
            _, j = min(others)
            dr, dc = ag[j][0] - r, ag[j][1] - c
            if abs(dr) >= abs(dc) and dr != 0:
                want = 2 if dr > 0 else 0
            else:
                want = 1 if dc > 0 else 3
            a = self._turn_towards(d, want)
            if a == FORWARD and legal is not None and not legal[i, FORWARD]:
                a = TOGGLE
            out.append(a)
        return out

    def policy_complete(self, s, env, rng, legal):
        """Work: fetch a requested shelf, carry it along the aisles to a goal cell, put it back on a free shelf location.
        In alternating phases of 40 steps (starting with everybody) either agent 0 works alone (the others wait: no collisions, deliveries happen) or
        every agent works (carrying agents then queue up behind one another in the aisles on their way to the goal)."""
        ag = self._agents(s)
        everybody = (int(s.step_count) // 40) % 2 == 0
        out = [NOOP] * len(ag)
        for i in range(len(ag) if everybody else 1):
            if i == 0 or rng.random() < 0.8:
                out[i] = self._work_action(i, s, env, rng)
        return out

    def _work_action(self, i, s, env, rng):
        ag, sh = self._agents(s), self._shelves(s)
        H, W = np.asarray(s.grid).shape[1:]
        hw = np.asarray(env.highways).astype(bool)  # (a client may read the env's public attributes)
        r, c, d, carrying = ag[i]
        others = {(x, y) for j, (x, y, _, _) in enumerate(ag) if j != i}
        shelf_at = {(x, y): j for j, (x, y, _) in enumerate(sh)}
        goals = {(H - 1, W // 2 - 1), (H - 1, W // 2)}
        free = np.ones((H, W), bool)
        for rc in others:
            free[rc] = False
        if carrying:
            for rc in shelf_at:
                if rc != (r, c):
                    free[rc] = False
            requested = bool(sh[shelf_at[(r, c)]][2]) if (r, c) in shelf_at else False
            if requested:
                is_goal = lambda rc: rc in goals  # noqa: E731
            else:
                if not hw[r, c]:
                    return TOGGLE  # put it down here
                is_goal = lambda rc: not hw[rc]  # noqa: E731
        else:
            targets = {rc for rc, j in shelf_at.items() if sh[j][2] and rc not in others}
            if (r, c) in targets:
                return TOGGLE
            is_goal = lambda rc: rc in targets  # noqa: E731
        prev: Dict[Tuple[int, int], Any] = {(r, c): None}
        dq = deque([(r, c)])
        found = None
        while dq:
            cur = dq.popleft()
            if cur != (r, c) and is_goal(cur):
                found = cur
                break
            for k, (dr, dc) in enumerate(DIRS):
                n = (cur[0] + dr, cur[1] + dc)
                if 0 <= n[0] < H and 0 <= n[1] < W and free[n] and n not in prev:
                    prev[n] = cur
                    dq.append(n)
        if found is None:
            # boxed in by the others (or queueing behind a carrier): push on straight ahead half of the time
            return FORWARD if rng.random() < 0.5 else int(rng.choice([LEFT, RIGHT]))
        step = found
        while prev[step] != (r, c):
            step = prev[step]
        want = DIRS.index((step[0] - r, step[1] - c))
        return self._turn_towards(d, want)
