from jsim.envs.base import Adapter
from jsim.envs._mk import cfg, cross_tl


class A(Adapter):
    name = "MMST"
    mask_mode = "per_agent"
    fork_every = 4

    def configs(self):
        base = [cfg("n36a3", True, n=36, e=72, deg=5, a=3, k=4, tl=None), cfg("n12a2", True, n=12, e=18, deg=4, a=2, k=3, tl=None),
                cfg("n20a4", n=20, e=35, deg=5, a=4, k=3, tl=None)]
        return cross_tl(base, [1, 2, 3, 7])

    def build(self, c):
        from jumanji.environments import MMST
        from jumanji.environments.routing.mmst.generator import SplitRandomGenerator
        tl = 70 if c.get("tl") is None else c["tl"]
        g = SplitRandomGenerator(num_nodes=c["n"], num_edges=c["e"], max_degree=c["deg"], num_agents=c["a"],
                                 num_nodes_per_agent=c["k"], max_step=tl)
        return MMST(generator=g, time_limit=tl)

    def time_limit(self, env, c):
        return 70 if c.get("tl") is None else c["tl"]
