"""MMST: rules written from docs/environments/mmst.md and the class docstring.

Random connected graph; each agent owns a group of nodes (`node_types == agent id`, -1 = utility node) and
starts on one of them. Each step every agent names the node it wants to move to. "An action is invalid if
the agent picks a node it has no edge to or the node is a utility node already been used by another agent";
an invalid choice leaves the agent where it is. If several agents name the same node, a random one gets it.
The episode ends when every agent has connected (visited) all its nodes, or at the time limit.

State conventions (from types.py): `positions[i]` current node, `connected_nodes[i]` the route of agent i
(-1 padding), `connected_nodes_index[i][v] != -1` iff agent i has visited v, `nodes_to_connect[i]` the group.
The observation relabels `node_types` from the first agent's perspective: its visited nodes 0, its unvisited
group nodes 1, the k-th next agent's visited nodes 2k and unvisited group nodes 2k+1, untouched utility
nodes -1.
"""
from __future__ import annotations

from collections import deque
from typing import Any, List, Optional, Set

import numpy as np

from jsim.envs._mk import cfg, cross_tl
from jsim.envs.base import Adapter


class A(Adapter):
    name = "MMST"
    run_scale = 1
    mask_mode = "per_agent"
    fork_every = 4
    has_reaction = True
    has_constraints = True
    has_observer = True

    def configs(self):
        base = [cfg("n36a3", True, n=36, e=72, deg=5, a=3, k=4, tl=None), cfg("n12a2", True, n=12, e=18, deg=4, a=2, k=3, tl=None),
                cfg("n20a4", n=20, e=35, deg=5, a=4, k=3, tl=None)]
        out = cross_tl(base, [1, 2, 3, 7])
        # the generator's route-buffer width (max_step) is a separate constructor argument: the time limit that counts
        # is the environment's, also when the two differ
        for tl, ms in ((3, 9), (7, 12)):
            d = dict(base[1])
            d.update(id=f"n12a2+tl{tl}+ms{ms}", tl=tl, ms=ms, quick=(tl == 3), clock=True)
            out.append(d)
        return out

    def build(self, c):
        from jumanji.environments import MMST
        from jumanji.environments.routing.mmst.generator import SplitRandomGenerator
        tl = 70 if c.get("tl") is None else c["tl"]
        g = SplitRandomGenerator(num_nodes=c["n"], num_edges=c["e"], max_degree=c["deg"], num_agents=c["a"],
                                 num_nodes_per_agent=c["k"], max_step=c.get("ms", tl))
        return MMST(generator=g, time_limit=tl)

    def time_limit(self, env, c):
        return 70 if c.get("tl") is None else c["tl"]

    # ---- state readers -------------------------------------------------------------------------------
    @staticmethod
    def _routes(s: Any) -> List[Set[int]]:
        """Nodes each agent has visited (union of the two bookkeeping arrays; they agree except when the route array
        is full on the very last step)."""
        cn = np.asarray(s.connected_nodes)
        ci = np.asarray(s.connected_nodes_index)
        out = []
        for i in range(cn.shape[0]):
            r = {int(v) for v in cn[i] if v >= 0}
            r |= {int(v) for v in np.flatnonzero(ci[i] != -1)}
            r.add(int(np.asarray(s.positions)[i]))
            out.append(r)
        return out

    def _finished(self, s: Any) -> np.ndarray:
        routes = self._routes(s)
        need = np.asarray(s.nodes_to_connect)
        return np.asarray([all(int(v) in routes[i] for v in need[i]) for i in range(need.shape[0])], bool)

    # ---- C04 -------------------------------------------------------------------------------------
    def legal(self, s: Any, env: Any) -> np.ndarray:
        adj = np.asarray(s.adj_matrix).astype(bool)
        types = np.asarray(s.node_types)
        pos = np.asarray(s.positions)
        routes = self._routes(s)
        fin = self._finished(s)
        n_agents, n = len(pos), adj.shape[0]
        out = np.zeros((n_agents, n), bool)
        for i in range(n_agents):
            if fin[i]:
                continue  # nothing left to do (row not judged)
            used_by_others = set().union(*[routes[j] for j in range(n_agents) if j != i]) if n_agents > 1 else set()
            for a in range(n):
                if adj[pos[i], a] and not (types[a] == -1 and a in used_by_others):
                    out[i, a] = True
        return out

    def judged(self, s: Any, env: Any) -> np.ndarray:
        # finished agents are not judged: their mask row is cleared one step late by construction and the rules are silent
        fin = self._finished(s)
        n = np.asarray(s.adj_matrix).shape[0]
        return np.repeat(~fin[:, None], n, axis=1)

    def describe(self, s, env, idx):
        i, a = int(idx[0]), int(idx[1])
        pos = int(np.asarray(s.positions)[i])
        routes = self._routes(s)
        others = sorted(j for j in range(len(routes)) if j != i and a in routes[j])
        return (f"agent {i} on node {pos}; edge {pos}-{a}: {bool(np.asarray(s.adj_matrix)[pos, a])}; node {a} type {int(np.asarray(s.node_types)[a])}, "
                f"visited by other agents {others}")

    def reaction_invalid(self, ps, action, agent, s, ts, env, cfg):
        a = int(action[agent])
        before, after = int(np.asarray(ps.positions)[agent]), int(np.asarray(s.positions)[agent])
        if after == a and a != before:
            return False  # the agent went where it asked to go
        if any(int(b) == a for j, b in enumerate(action) if j != agent):
            return None  # somebody else named the same node: the random tie-break may have kept this agent back
        return True  # it stayed although nobody competed: the move was treated as invalid

    def action_in_mask(self, action, mask):
        # an agent whose mask row is empty (finished) has no mask-respecting choice: whatever it plays is ignored
        mask = np.asarray(mask).astype(bool)
        return all(bool(mask[i, int(a)]) or not mask[i].any() for i, a in enumerate(action))

    # ---- C06 -------------------------------------------------------------------------------------
    def constraints(self, hist, env, cfg):
        s = hist[-1].state
        types = np.asarray(s.node_types)
        adj = np.asarray(s.adj_matrix).astype(bool)
        n_agents = len(np.asarray(s.positions))
        # routes replayed from the recorded positions (the action history as the env resolved it)
        walked: List[Set[int]] = [set() for _ in range(n_agents)]
        prev = None
        for rec in hist:
            p = [int(v) for v in np.asarray(rec.state.positions)]
            for i in range(n_agents):
                walked[i].add(p[i])
                if prev is not None and p[i] != prev[i] and not adj[prev[i], p[i]]:
                    return ("moved_without_edge", f"agent {i} went {prev[i]} -> {p[i]} at step {rec.t} but there is no such edge")
            prev = p
        stored = self._routes(s)
        for name, routes in (("replayed from the history", walked), ("stored in connected_nodes", stored)):
            for u in np.flatnonzero(types == -1):
                who = [i for i in range(n_agents) if int(u) in routes[i]]
                if len(who) > 1:
                    return ("utility_node_shared", f"utility node {int(u)} is on the routes of agents {who} ({name})")
        for i in range(n_agents):
            if not stored[i] <= walked[i]:
                return ("route_not_in_history", f"agent {i}: connected_nodes holds {sorted(stored[i] - walked[i])} which it never stood on")
            full = int(np.asarray(s.position_index)[i]) + 1 >= np.asarray(s.connected_nodes).shape[1]
            if not walked[i] <= stored[i] and not full:
                return ("history_not_in_route", f"agent {i}: stood on {sorted(walked[i] - stored[i])} but connected_nodes does not record it")
        if int(hist[-1].ts.step_type) == 2 and int(s.step_count) < self.time_limit(env, cfg):
            need = np.asarray(s.nodes_to_connect)
            for i in range(n_agents):
                missing = [int(v) for v in need[i] if int(v) not in walked[i]]
                if missing:
                    return ("ended_incomplete", f"episode ended at step {int(s.step_count)} before the time limit but agent {i} never reached its nodes {missing}")
                if any(types[int(v)] != i for v in need[i]):
                    return ("group_type_mismatch", f"agent {i}: nodes_to_connect {need[i].tolist()} are not all of type {i}")
        return None

    # ---- C11 -------------------------------------------------------------------------------------
    def end_cause(self, ps, action, s, ts, env, cfg):
        return "all_agents_connected" if bool(self._finished(s).all()) else None

    # ---- reach probes ------------------------------------------------------------------------------
    def events(self, ps, action, s, ts, env, cfg):
        fin1 = self._finished(s)
        if ps is None:
            lg = self.legal(s, env)
            shared = bool((lg.sum(axis=0) >= 2).any())
            return ((["reset_agent_without_legal_move"] if (~lg.any(axis=1) & ~fin1).any() else [])
                    + (["reset_two_agents_share_a_legal_node"] if shared else []) + (["reset_agent_already_finished"] if fin1.any() else []))
        adj = np.asarray(ps.adj_matrix).astype(bool)
        types = np.asarray(ps.node_types)
        pos0, pos1 = np.asarray(ps.positions), np.asarray(s.positions)
        routes, fin0 = self._routes(ps), self._finished(ps)
        ev = []
        acts = [int(a) for a in action]
        for i, a in enumerate(acts):
            others = set().union(*[routes[j] for j in range(len(acts)) if j != i]) if len(acts) > 1 else set()
            if fin0[i]:
                ev.append("finished_agent_acts")
            elif a == int(pos0[i]):
                ev.append("agent_noop_names_own_node")
            elif not adj[pos0[i], a]:
                ev.append("agent_invalid_no_edge")
            elif types[a] == -1 and a in others:
                ev.append("agent_invalid_utility_node_used_by_other")
            elif int(pos1[i]) == a:
                ev.append("agent_moved")
                kind = "utility_node" if types[a] == -1 else "own_group_node" if types[a] == i else "foreign_group_node"
                ev.append(("agent_revisits_" if a in routes[i] else "agent_enters_new_") + kind)
            else:
                ev.append("agent_stayed_on_valid_choice")  # lost the random tie-break (or an unmodelled refusal)
        live = [a for i, a in enumerate(acts) if not fin0[i] and adj[pos0[i], a]]
        for a in set(live):
            if live.count(a) >= 2:
                ev.append("two_agents_want_same_node" if live.count(a) == 2 else "three_or_more_agents_want_same_node")
        if int((pos0 != pos1).sum()) >= 2:
            ev.append("agents_moving_simultaneously_ge2")
        if (fin1 & ~fin0).any():
            ev.append("agent_finished")
        if fin1.all():
            ev.append("end_all_agents_finished")
        pi, width = np.asarray(getattr(s, "position_index", -1)), np.asarray(s.connected_nodes).shape[1]
        if (pi + 1 >= width).any():
            ev.append("route_buffer_full")
        return ev

    # ---- C12 -------------------------------------------------------------------------------------
    def observe(self, s, obs, env, cfg):
        for name in ("adj_matrix", "positions", "step_count", "action_mask"):
            a, b = np.asarray(getattr(obs, name)), np.asarray(getattr(s, name))
            if a.shape != b.shape or not np.array_equal(a, b):
                return (name, f"obs.{name} != state.{name}")
        types = np.asarray(s.node_types)
        got = np.asarray(obs.node_types)
        if got.shape != types.shape:
            return ("node_types_shape", f"{got.shape} vs {types.shape}")
        cn, ci = np.asarray(s.connected_nodes), np.asarray(s.connected_nodes_index)
        n_agents = cn.shape[0]
        viewer = 0  # "to make the environment single agent, we use the first agent's observation"
        for v in range(len(types)):
            in_route = [bool((cn[k] == v).any()) for k in range(n_agents)]
            in_index = [bool(ci[k][v] != -1) for k in range(n_agents)]
            allowed = set()
            for k in range(n_agents):
                if in_route[k] or in_index[k]:
                    allowed.add(2 * ((k - viewer) % n_agents))  # visited by agent k (several visitors: the docs do not say who wins)
            if not any(in_route) or not any(in_index):  # unvisited by at least one of the two records
                t = int(types[v])
                allowed.add(-1 if t == -1 else 2 * ((t - viewer) % n_agents) + 1)
            if int(got[v]) not in allowed:
                return ("node_types", f"node {v} (type {int(types[v])}, visited by {[k for k in range(n_agents) if in_route[k] or in_index[k]]}) "
                        f"is shown as {int(got[v])}, expected one of {sorted(allowed)}")
        return None

    # ---- policies ----------------------------------------------------------------------------------
    def _toward(self, s: Any, i: int, allowed: np.ndarray, goals: Set[int]) -> Optional[int]:
        """First hop of a shortest path from agent i's node to any goal through nodes it may enter."""
        adj = np.asarray(s.adj_matrix).astype(bool)
        start = int(np.asarray(s.positions)[i])
        prev = {start: None}
        dq = deque([start])
        while dq:
            cur = dq.popleft()
            if cur in goals and cur != start:
                while prev[cur] != start:
                    cur = prev[cur]
                return cur
            for nb in np.flatnonzero(adj[cur]):
                nb = int(nb)
                if nb not in prev and allowed[nb]:
                    prev[nb] = cur
                    dq.append(nb)
        return None

    def _enterable(self, s: Any, i: int) -> np.ndarray:
        types = np.asarray(s.node_types)
        routes = self._routes(s)
        ok = np.ones(len(types), bool)
        for j, r in enumerate(routes):
            if j != i:
                for v in r:
                    if types[v] == -1:
                        ok[v] = False
        return ok

    def policy_complete(self, s, env, rng, legal):
        pos = np.asarray(s.positions)
        need = np.asarray(s.nodes_to_connect)
        routes = self._routes(s)
        out = []
        for i in range(len(pos)):
            goals = {int(v) for v in need[i]} - routes[i]
            hop = self._toward(s, i, self._enterable(s, i), goals) if goals else None
            if hop is None or (legal is not None and not legal[i, hop]):
                idx = np.flatnonzero(legal[i]) if legal is not None else []
                hop = int(idx[int(rng.integers(0, len(idx)))]) if len(idx) else int(pos[i])
            out.append(int(hop))
        return out

    def policy_survive(self, s, env, rng, legal):
        """Random legal walk, but agent 0 never steps on the last node of its group (so the episode cannot complete)."""
        pos = np.asarray(s.positions)
        need = np.asarray(s.nodes_to_connect)
        routes = self._routes(s)
        out = []
        for i in range(len(pos)):
            idx = [int(a) for a in np.flatnonzero(legal[i])] if legal is not None else []
            if i == 0:
                missing = {int(v) for v in need[0]} - routes[0]
                if len(missing) <= 1:
                    idx = [a for a in idx if a not in missing]
            out.append(idx[int(rng.integers(0, len(idx)))] if idx else int(pos[i]))  # own node: no self-edge, so the agent stays
        return out

    def policy_collide(self, s, env, rng, legal):
        """Agents try to name the same node: each picks the legal node that most other agents can also reach now."""
        if legal is None:
            return None
        pos = np.asarray(s.positions)
        score = legal.sum(axis=0)
        out = []
        for i in range(len(pos)):
            idx = np.flatnonzero(legal[i])
            if len(idx) == 0:
                out.append(int(pos[i]))
                continue
            best = idx[score[idx] == score[idx].max()]
            out.append(int(best[int(rng.integers(0, len(best)))]))
        return out
