"""GraphColoring: rules written from docs/environments/graph_coloring.md and the class docstring.

Undirected loop-less graph on num_nodes nodes (boolean adjacency matrix); num_colors == num_nodes. Nodes are
coloured one at a time in index order: the action is the colour given to the *current* node
(`current_node_index`). A colour is allowed for the current node iff no neighbour of that node already
carries it ("the allowed color set for each node is updated after every action"). The episode ends when all
nodes are coloured (reward = -(number of distinct colours used)) or on an invalid action (reward =
-(total number of colours) = -num_nodes); every other step has reward 0.
"""
from __future__ import annotations

from typing import Any, Optional

import numpy as np

from jsim.envs._mk import cfg
from jsim.envs.base import Adapter


class A(Adapter):
    name = "GraphColoring"
    mask_mode = "flat"
    terminate_on_invalid = True
    has_invalid_effect = True
    has_constraints = True
    has_objective = True
    has_model = True
    has_observer = True

    def configs(self):
        return [cfg("n20p8", True, n=20, p=0.8), cfg("n6p5", True, n=6, p=0.5), cfg("n12p3", n=12, p=0.3), cfg("n3p9", n=3, p=0.9),
                cfg("n40p2", True, n=40, p=0.2), cfg("n8p1", True, n=8, p=0.1)]  # ... and a tiny sparse graph (isolated nodes)  # more colours than a machine word has bits

    def build(self, c):
        from jumanji.environments import GraphColoring
        from jumanji.environments.logic.graph_coloring.generator import RandomGenerator
        return GraphColoring(generator=RandomGenerator(num_nodes=c["n"], edge_probability=c["p"]))

    def horizon(self, env, c):
        return c["n"]

    # ---- rules ---------------------------------------------------------------------------------
    @staticmethod
    def _allowed(adj: np.ndarray, colors: np.ndarray, node: int) -> np.ndarray:
        """Colours not carried by any already-coloured neighbour of `node`."""
        n = len(colors)
        out = np.ones(n, bool)
        for j in range(n):
            if j != node and (adj[node, j] or adj[j, node]) and colors[j] >= 0:
                out[int(colors[j])] = False
        return out

    def legal(self, s: Any, env: Any) -> np.ndarray:
        return self._allowed(np.asarray(s.adj_matrix), np.asarray(s.colors), int(s.current_node_index))

    def describe(self, s, env, idx):
        adj, colors, node = np.asarray(s.adj_matrix), np.asarray(s.colors), int(s.current_node_index)
        nb = [j for j in range(len(colors)) if adj[node, j] or adj[j, node]]
        return f"current node {node}, neighbours {nb} carry colours {[int(colors[j]) for j in nb]}, colour {idx[0]}"

    @staticmethod
    def _conflict(adj: np.ndarray, colors: np.ndarray) -> Optional[str]:
        n = len(colors)
        for i in range(n):
            for j in range(i + 1, n):
                if (adj[i, j] or adj[j, i]) and colors[i] >= 0 and colors[i] == colors[j]:
                    return f"adjacent nodes {i} and {j} both carry colour {int(colors[i])}"
        return None

    # ---- C05 -------------------------------------------------------------------------------------
    def invalid_effect(self, ps, action, illegal, s, ts, env, cfg):
        n = len(np.asarray(ps.colors))
        if int(ts.step_type) != 2:
            return ("invalid_move_not_terminal", f"step_type {int(ts.step_type)} after illegal colour {int(action)} for node {int(ps.current_node_index)}")
        if not np.isclose(float(ts.reward), -float(n), rtol=1e-5, atol=1e-6):
            return ("invalid_move_reward", f"reward {float(ts.reward)} on an illegal move, documented: -(total number of colours) = {-n}")
        if float(ts.discount) != 0.0:
            return ("invalid_move_discount", f"discount {float(ts.discount)} != 0 on the terminal step")
        return None

    # ---- C06 -------------------------------------------------------------------------------------
    def constraints(self, hist, env, cfg):
        s = hist[-1].state
        adj, colors = np.asarray(s.adj_matrix), np.asarray(s.colors)
        n = len(colors)
        if not np.array_equal(adj, np.asarray(hist[0].state.adj_matrix)):
            return ("graph_changed", "adjacency matrix differs from the one of the reset state")
        # the colouring claimed by the state must be the one the action history produced: node t-1 got action t
        want = np.full(n, -1, dtype=np.int64)
        for rec in hist[1:]:
            if rec.t - 1 >= n:
                return ("more_steps_than_nodes", f"step {rec.t} on a graph of {n} nodes")
            want[rec.t - 1] = int(rec.action)
        if not np.array_equal(colors, want):
            i = int(np.flatnonzero(colors != want)[0])
            return ("colors_differ_from_history", f"node {i} carries {int(colors[i])}, the action history gives {int(want[i])}")
        c = self._conflict(adj, colors)
        if c is not None:
            return ("adjacent_nodes_share_colour", c)
        if len(hist) > 1 and int(hist[-1].ts.step_type) == 2 and (colors < 0).any():
            return ("ended_incomplete", f"mask-respecting episode ended with uncoloured nodes {np.flatnonzero(colors < 0).tolist()}")
        return None

    # ---- C08 -------------------------------------------------------------------------------------
    def objective(self, hist, env, cfg):
        if int(hist[-1].ts.step_type) != 2:
            return None
        colors = np.asarray(hist[-1].state.colors)
        if (colors < 0).any():
            return None  # not a completion (the objective is documented for completed colourings)
        return -float(len(set(int(c) for c in colors)))

    # ---- C09 -------------------------------------------------------------------------------------
    def model_step(self, ps, action, s, ts, env, cfg):
        adj, pc, node = np.asarray(ps.adj_matrix), np.asarray(ps.colors), int(ps.current_node_index)
        n = len(pc)
        a = int(action)
        if not self._allowed(adj, pc, node)[a]:
            # terminate-on-invalid: only reward / done are specified
            if int(ts.step_type) != 2:
                return ("termination", f"illegal colour {a} for node {node} did not end the episode")
            if not np.isclose(float(ts.reward), -float(n), rtol=1e-5, atol=1e-6):
                return ("reward", f"reward {float(ts.reward)} after an illegal move, expected {-n}")
            return None
        nc = pc.copy()
        nc[node] = a
        if not np.array_equal(np.asarray(s.colors), nc):
            return ("colors", f"colors {np.asarray(s.colors).tolist()} after giving colour {a} to node {node}, expected {nc.tolist()}")
        if not np.array_equal(np.asarray(s.adj_matrix), adj):
            return ("adj_matrix", "adjacency matrix changed during a step")
        done = bool((nc >= 0).all())
        want_reward = -float(len(set(int(c) for c in nc))) if done else 0.0
        if (int(ts.step_type) == 2) != done:
            return ("termination", f"step_type {int(ts.step_type)} after the legal colour {a} for node {node}, but the rules say done={done} "
                    f"(uncoloured nodes left: {int((nc < 0).sum())})")
        if not np.isclose(float(ts.reward), want_reward, rtol=1e-5, atol=1e-6):
            return ("reward", f"reward {float(ts.reward)} expected {want_reward} (done={done})")
        if not done and int(s.current_node_index) != node + 1:
            # (after completion the index of the "next" node is not specified)
            return ("current_node_index", f"current_node_index {int(s.current_node_index)} after colouring node {node}, expected {node + 1}")
        return None

    # ---- C11 -------------------------------------------------------------------------------------
    def end_cause(self, ps, action, s, ts, env, cfg):
        if not self.legal(ps, env)[int(action)]:
            return "invalid_action"
        if (np.asarray(s.colors) >= 0).all():
            return "all_nodes_coloured"
        return None

    # ---- reach probes ---------------------------------------------------------------------------
    def events(self, ps, action, s, ts, env, cfg):
        if ps is None:
            adj = np.asarray(s.adj_matrix).astype(bool)
            adj = adj | adj.T
            n = adj.shape[0]
            edges = int(np.triu(adj, 1).sum())
            ev = ["reset_no_edges"] if edges == 0 else (["reset_complete_graph"] if edges == n * (n - 1) // 2 else [])
            if n > 1 and (adj.sum(axis=1) == 0).any():
                ev.append("reset_isolated_node")
            return ev
        adj, pc, node = np.asarray(ps.adj_matrix), np.asarray(ps.colors), int(ps.current_node_index)
        a = int(action)
        allowed = self._allowed(adj, pc, node)
        last = int(ts.step_type) == 2
        if not allowed[a]:
            return ["ended_invalid_colour"] if last else []
        used = sorted(set(int(c) for c in pc[pc >= 0]))
        ev = ["colour_reused" if a in used else "new_colour_introduced"]
        if a > 0 and not allowed[:a].any():
            ev.append("all_lower_colours_blocked")
        if used and not any(allowed[c] for c in used):
            ev.append("all_used_colours_blocked")  # the node is forced to a colour nobody carries yet
        if allowed[:a].any():
            ev.append("lower_allowed_colour_skipped")
        if allowed.all():
            ev.append("node_without_coloured_neighbour")
        if a == len(pc) - 1:
            ev.append("highest_colour_index_played")
        nc = np.asarray(s.colors)
        if (nc >= 0).all():
            ev.append("ended_all_nodes_coloured")
            k = len(set(int(c) for c in nc))
            if k == len(nc):
                ev.append("finished_with_n_colours")
            if k <= 2:
                ev.append("finished_with_le_2_colours")
        return ev

    # ---- C12 -------------------------------------------------------------------------------------
    def observe(self, s, obs, env, cfg):
        for f in ("adj_matrix", "colors", "action_mask"):
            if not np.array_equal(np.asarray(getattr(obs, f)), np.asarray(getattr(s, f))):
                return (f, f"obs.{f} {np.asarray(getattr(obs, f)).tolist()} != state.{f} {np.asarray(getattr(s, f)).tolist()}")
        if int(obs.current_node_index) != int(s.current_node_index):
            return ("current_node_index", f"obs {int(obs.current_node_index)} vs state {int(s.current_node_index)}")
        return None

    # ---- policies ----------------------------------------------------------------------------------
    def policy_complete(self, s, env, rng, legal):
        """Greedy colouring: lowest allowed colour (always completes when the allowed set is honoured)."""
        if legal is None or not legal.any():
            return None
        return int(np.flatnonzero(legal)[0])
