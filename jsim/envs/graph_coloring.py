from jsim.envs.base import Adapter
from jsim.envs._mk import cfg


class A(Adapter):
    name = "GraphColoring"
    mask_mode = "flat"
    terminate_on_invalid = True

    def configs(self):
        return [cfg("n20p8", True, n=20, p=0.8), cfg("n6p5", True, n=6, p=0.5), cfg("n12p3", n=12, p=0.3), cfg("n3p9", n=3, p=0.9)]

    def build(self, c):
        from jumanji.environments import GraphColoring
        from jumanji.environments.logic.graph_coloring.generator import RandomGenerator
        return GraphColoring(generator=RandomGenerator(num_nodes=c["n"], edge_probability=c["p"]))

    def horizon(self, env, c):
        return c["n"]
