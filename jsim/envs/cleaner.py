from jsim.envs.base import Adapter
from jsim.envs._mk import cfg, cross_tl


class A(Adapter):
    name = "Cleaner"
    mask_mode = "per_agent"
    terminate_on_invalid = True

    def configs(self):
        base = [cfg("r10c10a3", True, r=10, c=10, a=3, tl=None), cfg("r5c11a2", True, r=5, c=11, a=2, tl=None),
                cfg("r11c5a3", r=11, c=5, a=3, tl=None), cfg("r5c5a1", r=5, c=5, a=1, tl=None), cfg("r3c7a2", r=3, c=7, a=2, tl=None)]
        return cross_tl(base, [None, 1, 2, 3, 7])

    def build(self, c):
        from jumanji.environments import Cleaner
        from jumanji.environments.routing.cleaner.generator import RandomGenerator
        g = RandomGenerator(num_rows=c["r"], num_cols=c["c"], num_agents=c["a"])
        return Cleaner(generator=g, time_limit=c.get("tl"))

    def time_limit(self, env, c):
        return c["r"] * c["c"] if c.get("tl") is None else c["tl"]
