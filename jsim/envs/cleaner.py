"""Cleaner: rules written from docs/environments/cleaner.md and the class docstring.

Grid of num_rows x num_cols tiles: dirty (0), clean (1) or wall (2). `agents_locations[i] = (row, col)`;
all agents start on the (clean) top-left tile. Each agent plays 0..3 = up, right, down, left. A move is
legal for an agent iff the tile it leads to is inside the grid and not a wall. Every tile an agent
visits is cleaned. The reward is shared: number of tiles cleaned during the step minus
`penalty_per_timestep` (0.5 by default). The episode ends when all tiles are clean, at the time
limit, or when any agent plays an invalid action ("the corresponding agent does not move and the
episode terminates"; the other agents' valid moves are still carried out).
"""
from __future__ import annotations

from typing import Any, List, Optional, Tuple

import numpy as np

from jsim.envs._mk import cfg, cross_tl
from jsim.envs.base import Adapter, bfs_path

DELTA = [(-1, 0), (0, 1), (1, 0), (0, -1)]  # up, right, down, left
DIRTY, CLEAN, WALL = 0, 1, 2


class A(Adapter):
    name = "Cleaner"
    mask_mode = "per_agent"
    terminate_on_invalid = True
    has_invalid_effect = True
    has_physical = True
    has_objective = True
    objective_without_end = True
    has_model = True
    has_observer = True

    def configs(self):
        base = [cfg("r10c10a3", True, r=10, c=10, a=3, tl=None), cfg("r5c11a2", True, r=5, c=11, a=2, tl=None),
                cfg("r11c5a3", r=11, c=5, a=3, tl=None), cfg("r5c5a1", r=5, c=5, a=1, tl=None), cfg("r3c7a2", r=3, c=7, a=2, tl=None),
                # falsy / non-default penalties: 0.0 must be honoured, not replaced by the default
                cfg("r6c4a2pen0", True, r=6, c=4, a=2, tl=None, penalty=0),  # an int, and falsy: rewards must still be float32
                cfg("r4c6a1pen2", r=4, c=6, a=1, tl=None, penalty=2.0), cfg("r3c5a2pen0f", r=3, c=5, a=2, tl=None, penalty=0.0)]
        return cross_tl(base, [None, 1, 2, 3, 7])

    def build(self, c):
        from jumanji.environments import Cleaner
        from jumanji.environments.routing.cleaner.generator import RandomGenerator
        g = RandomGenerator(num_rows=c["r"], num_cols=c["c"], num_agents=c["a"])
        if "penalty" in c:
            return Cleaner(generator=g, time_limit=c.get("tl"), penalty_per_timestep=c["penalty"])
        if c.get("tl") == 2:
            return Cleaner(g, c["tl"])  # (time_limit = 2 configurations pass the documented leading parameters positionally)
        return Cleaner(generator=g, time_limit=c.get("tl"))

    def time_limit(self, env, c):
        return c["r"] * c["c"] if c.get("tl") is None else c["tl"]

    @staticmethod
    def _penalty(cfg: Any) -> float:
        return float(cfg.get("penalty", 0.5))  # build() keeps the documented default

    # ---- rules ---------------------------------------------------------------------------------
    @staticmethod
    def _locs(s: Any) -> List[Tuple[int, int]]:
        return [(int(r), int(c)) for r, c in np.asarray(s.agents_locations)]

    @staticmethod
    def _open(grid: np.ndarray, r: int, c: int) -> bool:
        R, C = grid.shape
        return 0 <= r < R and 0 <= c < C and int(grid[r, c]) != WALL

    def legal(self, s: Any, env: Any) -> np.ndarray:
        grid = np.asarray(s.grid)
        locs = self._locs(s)
        out = np.zeros((len(locs), 4), bool)
        for i, (r, c) in enumerate(locs):
            for a, (dr, dc) in enumerate(DELTA):
                out[i, a] = self._open(grid, r + dr, c + dc)
        return out

    def describe(self, s, env, idx):
        i, a = int(idx[0]), int(idx[1])
        r, c = self._locs(s)[i]
        grid = np.asarray(s.grid)
        return (f"agent {i} at {(r, c)} action {a} -> {(r + DELTA[a][0], c + DELTA[a][1])} on a {grid.shape[0]}x{grid.shape[1]} grid; "
                f"grid=\n{grid}")

    def _predict(self, ps: Any, action: Any) -> Tuple[List[Tuple[int, int]], np.ndarray, int, List[int]]:
        """Documented step: valid agents move, invalid agents stay, visited tiles become clean.
        Returns (locations, grid, number of tiles cleaned, indices of the invalid agents)."""
        grid = np.asarray(ps.grid)
        legal = self.legal(ps, None)
        new, invalid = [], []
        for i, (r, c) in enumerate(self._locs(ps)):
            a = int(action[i])
            if legal[i, a]:
                new.append((r + DELTA[a][0], c + DELTA[a][1]))
            else:
                new.append((r, c))
                invalid.append(i)
        g = grid.copy()
        R, C = g.shape
        cleaned = 0
        for r, c in new:
            if 0 <= r < R and 0 <= c < C and g[r, c] == DIRTY:
                g[r, c] = CLEAN
                cleaned += 1
        return new, g, cleaned, invalid

    # ---- C05 (terminate-on-invalid) ----------------------------------------------------------------
    def invalid_effect(self, ps, action, illegal, s, ts, env, cfg):
        new, g, cleaned, invalid = self._predict(ps, action)
        if not invalid:
            return None  # nothing illegal by the rules in this joint action
        if int(ts.step_type) != 2:
            return ("invalid_move_not_terminal", f"step_type {int(ts.step_type)} although agent(s) {invalid} played an invalid action "
                    f"(locations {self._locs(ps)}, action {np.asarray(action).tolist()})")
        want = cleaned - self._penalty(cfg)
        if not np.isclose(float(ts.reward), want, rtol=1e-5, atol=1e-6):
            return ("invalid_move_reward", f"reward {float(ts.reward)} expected {want} (= {cleaned} tiles cleaned - penalty)")
        got = self._locs(s)
        for i in invalid:
            if got[i] != new[i]:
                return ("invalid_agent_moved", f"agent {i} played the invalid action {int(action[i])} and moved {new[i]} -> {got[i]}")
        if got != new:
            return ("valid_move_not_applied", f"locations {got} expected {new} (invalid agents {invalid} stay, the others move)")
        if not np.array_equal(np.asarray(s.grid), g):
            k = np.argwhere(np.asarray(s.grid) != g)[0].tolist()
            return ("invalid_move_grid", f"grid differs from the documented effect at {k}: {int(np.asarray(s.grid)[tuple(k)])} expected {int(g[tuple(k)])}")
        return None

    # ---- C07 -------------------------------------------------------------------------------------
    def physical(self, ps, action, s, ts, env, cfg):
        grid = np.asarray(s.grid)
        R, C = grid.shape
        for i, (r, c) in enumerate(self._locs(s)):
            if not (0 <= r < R and 0 <= c < C):
                return ("agent_outside_grid", f"agent {i} at {(r, c)} is outside the {R}x{C} grid")
            if grid[r, c] == WALL:
                return ("agent_on_wall", f"agent {i} at {(r, c)} stands on a wall")
            if grid[r, c] != CLEAN:
                return ("agent_tile_not_clean", f"agent {i} at {(r, c)} stands on a tile with value {int(grid[r, c])}")
        if ps is not None and not np.array_equal(np.asarray(ps.grid) == WALL, grid == WALL):
            return ("walls_changed", "the set of wall tiles changed during a step")
        return None

    # ---- C08 -------------------------------------------------------------------------------------
    def objective(self, hist, env, cfg):
        g0, g1 = np.asarray(hist[0].state.grid), np.asarray(hist[-1].state.grid)
        cleaned = int(((g0 == DIRTY) & (g1 == CLEAN)).sum())
        steps = sum(1 for r in hist[1:] if not r.post_terminal)
        return float(cleaned) - self._penalty(cfg) * steps

    # ---- C09 -------------------------------------------------------------------------------------
    def model_step(self, ps, action, s, ts, env, cfg):
        new, g, cleaned, invalid = self._predict(ps, action)
        sc = int(ps.step_count) + 1
        want = cleaned - self._penalty(cfg)
        if not np.isclose(float(ts.reward), want, rtol=1e-5, atol=1e-6):
            return ("reward", f"reward {float(ts.reward)} expected {want} ({cleaned} tiles cleaned, invalid agents {invalid})")
        tl = self.time_limit(env, cfg)
        if invalid:
            done = True  # the successor state after an invalid action is judged by C05, not here
        else:
            if int(s.step_count) != sc:
                return ("step_count", f"step_count {int(s.step_count)} expected {sc}")
            if self._locs(s) != new:
                return ("agents_locations", f"locations {self._locs(s)} expected {new} (from {self._locs(ps)}, action {np.asarray(action).tolist()})")
            if not np.array_equal(np.asarray(s.grid), g):
                k = np.argwhere(np.asarray(s.grid) != g)[0].tolist()
                return ("grid", f"grid at {k} is {int(np.asarray(s.grid)[tuple(k)])} expected {int(g[tuple(k)])}")
            done = not bool((g == DIRTY).any()) or sc >= tl
        if (int(ts.step_type) == 2) != done:
            return ("termination", f"step_type {int(ts.step_type)} but the rules say done={done} (invalid agents {invalid}, "
                    f"dirty left {int((g == DIRTY).sum())}, step {sc}/{tl}, locations {self._locs(ps)}, action {np.asarray(action).tolist()})")
        return None

    # ---- C11 -------------------------------------------------------------------------------------
    def end_cause(self, ps, action, s, ts, env, cfg):
        legal = self.legal(ps, env)
        if any(not legal[i, int(a)] for i, a in enumerate(action)):
            return "invalid_action"
        if not bool((np.asarray(s.grid) == DIRTY).any()):
            return "all_clean"
        return None

    # ---- reach probes ------------------------------------------------------------------------------
    def events(self, ps, action, s, ts, env, cfg):
        if ps is None:
            grid = np.asarray(s.grid)
            locs = self._locs(s)
            return ((["reset_multi_agent"] if len(locs) > 1 else ["reset_single_agent"]) + (["reset_nonsquare"] if grid.shape[0] != grid.shape[1] else [])
                    + (["reset_agents_boxed_in"] if not self.legal(s, env).any() else []))
        grid = np.asarray(ps.grid)
        old = self._locs(ps)
        new, g, cleaned, invalid = self._predict(ps, action)
        ev = []
        for i in invalid:
            r, c = old[i][0] + DELTA[int(action[i])][0], old[i][1] + DELTA[int(action[i])][1]
            inside = 0 <= r < grid.shape[0] and 0 <= c < grid.shape[1]
            ev.append("agent_hits_wall" if inside else "agent_hits_border")
        if invalid:
            ev.append("end_invalid_action")
            ev.append("all_agents_invalid" if len(invalid) == len(old) else "invalid_and_valid_moves_mixed")
            if cleaned:
                ev.append("tile_cleaned_on_invalid_step")
        moved = [i for i in range(len(old)) if i not in invalid]
        cells = [new[i] for i in moved]
        if len(set(cells)) < len(cells):
            ev.append("two_agents_on_one_cell")
            if any(new[i] == new[j] and old[i] != old[j] for i in moved for j in moved if i < j):
                ev.append("two_agents_converge_on_one_cell")
            if any(new[i] == new[j] and grid[new[i]] == DIRTY for i in moved for j in moved if i < j):
                ev.append("two_agents_clean_same_tile")
        if any(new[i] == old[j] and new[j] == old[i] and old[i] != old[j] for i in moved for j in moved if i < j):
            ev.append("two_agents_swap_cells")
        ev.append("tiles_cleaned_%s" % ("0" if cleaned == 0 else "1" if cleaned == 1 else "ge2"))
        if not invalid and not bool((g == DIRTY).any()):
            ev.append("end_all_clean")
        if len(old) > 1 and len(moved) >= 2:
            ev.append("agents_moving_simultaneously_ge2")
        return ev

    # ---- C12 -------------------------------------------------------------------------------------
    def observe(self, s, obs, env, cfg):
        if not np.array_equal(np.asarray(obs.grid), np.asarray(s.grid)):
            return ("grid", "obs.grid != state.grid")
        if not np.array_equal(np.asarray(obs.agents_locations), np.asarray(s.agents_locations)):
            return ("agents_locations", f"obs {np.asarray(obs.agents_locations).tolist()} vs state {np.asarray(s.agents_locations).tolist()}")
        if not np.array_equal(np.asarray(obs.action_mask), np.asarray(s.action_mask)):
            return ("action_mask", "obs.action_mask != state.action_mask")
        if int(obs.step_count) != int(s.step_count):
            return ("step_count", f"obs {int(obs.step_count)} vs state {int(s.step_count)}")
        return None

    # ---- policies ----------------------------------------------------------------------------------
    def policy_survive(self, s, env, rng, legal):
        """Oscillate between clean tiles: legal moves only, onto an already clean tile whenever there is one
        (all agents prefer the same direction so that at most one tile is cleaned at the start)."""
        grid = np.asarray(s.grid)
        mine = self.legal(s, env)
        out = []
        for i, (r, c) in enumerate(self._locs(s)):
            opts = [a for a in range(4) if mine[i, a]]
            clean = [a for a in opts if grid[r + DELTA[a][0], c + DELTA[a][1]] == CLEAN]
            if clean:
                out.append(clean[0])
            elif opts:
                out.append(opts[0])
            else:
                out.append(0)
        return out

    def policy_complete(self, s, env, rng, legal):
        """Each agent walks (BFS over non-wall tiles) to the nearest dirty tile not already claimed by a lower agent."""
        grid = np.asarray(s.grid)
        R, C = grid.shape
        free = grid != WALL
        mine = self.legal(s, env)
        claimed: set = set()
        out = []
        for i, (r, c) in enumerate(self._locs(s)):
            path = None
            if 0 <= r < R and 0 <= c < C:
                path = bfs_path(free, (r, c), lambda cell: grid[cell] == DIRTY and cell not in claimed)
                if path is None:
                    path = bfs_path(free, (r, c), lambda cell: grid[cell] == DIRTY)
            if path is not None and len(path) >= 2:
                claimed.add(path[-1])
                out.append(DELTA.index((path[1][0] - r, path[1][1] - c)))
                continue
            opts = np.flatnonzero(mine[i])
            out.append(int(opts[int(rng.integers(0, len(opts)))]) if len(opts) else 0)
        return out
