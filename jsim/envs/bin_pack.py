import os

from jsim.envs.base import Adapter
from jsim.envs._mk import cfg

CSV_TEXT = """Item_Name,Length,Width,Height,Quantity
shape_1,1080,760,300,5
shape_2,1100,430,250,3
shape_3,600,600,600,2
"""


class A(Adapter):
    name = "BinPack"
    mask_mode = "joint"
    terminate_on_invalid = True
    fork_every = 4

    def configs(self):
        return [
            cfg("rand20e40", True, gen="random", items=20, ems=40, obs=40, norm=True, rew="dense"),
            cfg("rand5e10o6raw", True, gen="random", items=5, ems=10, obs=6, norm=False, rew="sparse"),
            cfg("toy", gen="toy", items=20, ems=60, obs=40, norm=True, rew="dense"),
            cfg("rand10e25o25", gen="random", items=10, ems=25, obs=25, norm=True, rew="sparse"),
            cfg("csv", gen="csv", items=10, ems=20, obs=12, norm=False, rew="dense"),
            cfg("rand8e6o6", gen="random", items=8, ems=6, obs=6, norm=True, rew="dense"),
        ]

    def build(self, c):
        from jumanji.environments import BinPack
        from jumanji.environments.packing.bin_pack import generator as G
        from jumanji.environments.packing.bin_pack import reward as R
        if c["gen"] == "random":
            g = G.RandomGenerator(max_num_items=c["items"], max_num_ems=c["ems"], split_num_same_items=2)
        elif c["gen"] == "toy":
            g = G.ToyGenerator()
        else:
            d = os.path.join("/verif/.work", str(os.getpid()))
            os.makedirs(d, exist_ok=True)
            path = os.path.join(d, "instance.csv")
            with open(path, "w") as f:
                f.write(CSV_TEXT)
            g = G.CSVGenerator(csv_path=path, max_num_ems=c["ems"])
            os.remove(path)
        rf = R.DenseReward() if c["rew"] == "dense" else R.SparseReward()
        return BinPack(generator=g, obs_num_ems=c["obs"], reward_fn=rf, normalize_dimensions=c["norm"])

    def horizon(self, env, c):
        return int(env.generator.max_num_items)
