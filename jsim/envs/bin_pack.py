"""BinPack: rules written from docs/environments/bin_pack.md, the BinPack class docstring and reward.py docstrings.

One container, items are axis-aligned boxes (x_len, y_len, z_len), integer millimetres. The free space is kept as a
table of empty maximal spaces (EMS: x1,x2,y1,y2,z1,z2). The agent is shown the `obs_num_ems` largest EMSs (by volume);
an action [i, j] places item j with its bottom-left corner at the origin (x1, y1, z1) of the EMS shown in slot i (the
state records which table entry is shown in slot i in `sorted_ems_indexes`). The action is valid iff item j is a real
item of the instance, is not packed yet, slot i holds an active EMS and the item is not larger than the EMS on any
axis. An invalid action is not taken and ends the episode (reward 0 dense / current utilisation sparse,
`extras["invalid_action"]`); otherwise the episode ends when no action can be performed any more. Return = volume
utilisation of the container.
"""
from __future__ import annotations

import os
from typing import Any, Dict, List, Optional, Tuple

import numpy as np

from jsim.envs._mk import cfg
from jsim.envs.base import Adapter

CSV_TEXT = """Item_Name,Length,Width,Height,Quantity
shape_1,1080,760,300,5
shape_2,1100,430,250,3
shape_3,600,600,600,2
"""

COORDS = ("x1", "x2", "y1", "y2", "z1", "z2")


def _space(sp: Any) -> np.ndarray:
    """(..., 6) int64 array x1,x2,y1,y2,z1,z2 of a Space with integer leaves."""
    return np.stack([np.asarray(getattr(sp, k)).astype(np.int64) for k in COORDS], axis=-1)


def _items(it: Any) -> np.ndarray:
    """(N, 3) int64 array of item lengths."""
    return np.stack([np.asarray(it.x_len), np.asarray(it.y_len), np.asarray(it.z_len)], axis=-1).astype(np.int64)


def _locs(loc: Any) -> np.ndarray:
    return np.stack([np.asarray(loc.x), np.asarray(loc.y), np.asarray(loc.z)], axis=-1).astype(np.int64)


def _dims(sp6: np.ndarray) -> np.ndarray:
    return sp6[..., [1, 3, 5]] - sp6[..., [0, 2, 4]]


def _vol(d3: np.ndarray) -> List[int]:
    """Exact volumes (Python ints: 5870*2330*2200 overflows int32 and loses bits in float32)."""
    return [int(a) * int(b) * int(c) for a, b, c in np.asarray(d3).reshape(-1, 3)]


class A(Adapter):
    name = "BinPack"
    run_scale = 1
    mask_mode = "joint"
    terminate_on_invalid = True
    fork_every = 4
    has_invalid_effect = True
    has_constraints = True
    has_objective = True
    has_observer = True

    def configs(self):
        return [
            cfg("rand20e40", True, gen="random", items=20, ems=40, obs=40, norm=True, rew="dense"),
            cfg("rand12e30o6raw", True, gen="random", items=12, ems=30, obs=6, norm=False, rew="sparse"),
            cfg("rand5e10o6raw", gen="random", items=5, ems=10, obs=6, norm=False, rew="sparse"),
            cfg("toy", gen="toy", items=20, ems=60, obs=40, norm=True, rew="dense"),
            cfg("rand10e25o25", gen="random", items=10, ems=25, obs=25, norm=True, rew="sparse"),
            cfg("csv", c02=True, gen="csv", items=10, ems=20, obs=12, norm=False, rew="dense"),
            cfg("rand8e6o6", gen="random", items=8, ems=6, obs=6, norm=True, rew="dense"),
            # the CSV instance in a user-chosen small container (not the 20-ft default): container size, initial empty space
            # and normalisation all come from the constructor argument (cheap properties only: no forked enumeration)
            cfg("csvsmall", True, gen="csv", items=10, ems=20, obs=20, norm=True, rew="dense", container=[2400, 1000, 1500],
                props=["C01", "C02", "C03", "C06", "C08", "C12"]),
            # a container whose floor exceeds 2^31 mm^2 (volumes and footprints beyond int32)
            cfg("randhuge", True, gen="random", items=6, ems=30, obs=30, norm=True, rew="dense", container=[100000, 80000, 5000],
                props=["C01", "C06", "C08", "C12"]),
        ]

    def build(self, c):
        from jumanji.environments import BinPack
        from jumanji.environments.packing.bin_pack import generator as G
        from jumanji.environments.packing.bin_pack import reward as R
        if c["gen"] == "random":
            kw = {"container_dims": tuple(c["container"])} if c.get("container") else {}
            g = G.RandomGenerator(max_num_items=c["items"], max_num_ems=c["ems"], split_num_same_items=2, **kw)
        elif c["gen"] == "toy":
            g = G.ToyGenerator()
        else:
            d = os.path.join("/verif/.work", str(os.getpid()))
            os.makedirs(d, exist_ok=True)
            path = os.path.join(d, "instance.csv")
            with open(path, "w") as f:
                f.write(CSV_TEXT)
            kw = {"container_dims": tuple(c["container"])} if c.get("container") else {}
            g = G.CSVGenerator(csv_path=path, max_num_ems=c["ems"], **kw)
            os.remove(path)
        rf = R.DenseReward() if c["rew"] == "dense" else R.SparseReward()
        return BinPack(generator=g, obs_num_ems=c["obs"], reward_fn=rf, normalize_dimensions=c["norm"])

    def horizon(self, env, c):
        return int(env.generator.max_num_items)

    # ---- rules ---------------------------------------------------------------------------------
    @staticmethod
    def _shown(s: Any, env: Any) -> np.ndarray:
        """State-table index of the EMS shown in each observed slot."""
        return np.asarray(s.sorted_ems_indexes).astype(np.int64)[: int(env.obs_num_ems)]

    def legal(self, s: Any, env: Any) -> np.ndarray:
        shown = self._shown(s, env)
        ems = _space(s.ems)[shown]  # (obs, 6)
        active = np.asarray(s.ems_mask).astype(bool)[shown]
        room = _dims(ems)  # (obs, 3)
        it = _items(s.items)  # (N, 3)
        fits = (it[None, :, :] <= room[:, None, :]).all(axis=-1)
        open_item = np.asarray(s.items_mask).astype(bool) & ~np.asarray(s.items_placed).astype(bool)
        return active[:, None] & open_item[None, :] & fits

    def describe(self, s, env, idx):
        i, j = idx
        e = int(self._shown(s, env)[i])
        sp = _space(s.ems)[e]
        return (f"slot {i} -> EMS {e} active={bool(np.asarray(s.ems_mask)[e])} dims={_dims(sp).tolist()} origin={sp[[0, 2, 4]].tolist()}; "
                f"item {j} dims={_items(s.items)[j].tolist()} valid={bool(np.asarray(s.items_mask)[j])} placed={bool(np.asarray(s.items_placed)[j])}")

    @staticmethod
    def _utilisation(s: Any) -> float:
        cont = _vol(_dims(_space(s.container)))[0]
        vols = _vol(_items(s.items))
        placed = np.asarray(s.items_placed).astype(bool)
        return float(sum(v for v, p in zip(vols, placed) if p)) / float(cont)

    # ---- C05 -------------------------------------------------------------------------------------
    PROBLEM_FIELDS = ("container", "ems", "ems_mask", "items", "items_mask", "items_placed", "items_location")

    def invalid_effect(self, ps, action, illegal, s, ts, env, cfg):
        if int(ts.step_type) != 2:
            return ("invalid_move_not_terminal", f"step_type {int(ts.step_type)} after an invalid action")
        want = 0.0 if cfg["rew"] == "dense" else self._utilisation(ps)
        if not np.isclose(float(ts.reward), want, rtol=1e-5, atol=1e-6):
            return ("invalid_move_reward", f"reward {float(ts.reward)} expected {want} ({cfg['rew']} reward, invalid action)")
        if float(ts.discount) != 0.0:
            return ("invalid_move_discount", f"discount {float(ts.discount)} != 0 on the terminal step")
        ex = getattr(ts, "extras", None)
        if isinstance(ex, dict) and "invalid_action" in ex and not bool(ex["invalid_action"]):
            return ("invalid_flag_not_set", "extras['invalid_action'] is False after an invalid action")
        from jsim import util

        for f in self.PROBLEM_FIELDS:
            d = util.tree_diff(getattr(ps, f), getattr(s, f))
            if d:
                return ("problem_state_touched", f"state.{f} changed by an invalid action: {d[:3]}")
        return None

    # ---- C06 -------------------------------------------------------------------------------------
    def constraints(self, hist, env, cfg):
        s = hist[-1].state
        chosen: Dict[int, Tuple[np.ndarray, int, int]] = {}
        for rec in hist[1:]:
            i, j = int(rec.action[0]), int(rec.action[1])
            ps = rec.prev_state
            e = int(self._shown(ps, env)[i])
            if j in chosen:
                return ("item_packed_twice", f"item {j} was chosen at step {chosen[j][2]} and again at step {rec.t}")
            chosen[j] = (_space(ps.ems)[e][[0, 2, 4]], e, rec.t)
        placed = np.flatnonzero(np.asarray(s.items_placed).astype(bool)).tolist()
        if placed != sorted(chosen):
            return ("placed_set_differs_from_history", f"items_placed {placed} but the actions packed {sorted(chosen)}")
        valid = np.asarray(s.items_mask).astype(bool)
        it = _items(s.items)
        loc = _locs(s.items_location)
        cont = _space(s.container)
        lo = loc[placed]  # (P, 3)
        hi = lo + it[placed]
        for n, j in enumerate(placed):
            if not valid[j]:
                return ("padding_item_packed", f"item {j} is not an item of the instance (items_mask False) but is packed")
            origin, e, t = chosen[j]
            if not np.array_equal(lo[n], origin):
                return ("item_not_at_ems_origin", f"item {j} is at {lo[n].tolist()} but the EMS chosen at step {t} (table index {e}) "
                        f"had origin {origin.tolist()}")
            if (lo[n] < cont[[0, 2, 4]]).any() or (hi[n] > cont[[1, 3, 5]]).any():
                return ("item_outside_container", f"item {j} occupies {lo[n].tolist()}..{hi[n].tolist()}, container {cont.tolist()}")
        if len(placed) > 1:
            # two boxes overlap iff their open intervals intersect on all three axes (exact integers)
            inter = (lo[:, None, :] < hi[None, :, :]) & (lo[None, :, :] < hi[:, None, :])
            ov = inter.all(axis=-1)
            np.fill_diagonal(ov, False)
            if ov.any():
                a, b = np.argwhere(ov)[0]
                return ("items_overlap", f"items {placed[a]} {lo[a].tolist()}..{hi[a].tolist()} and {placed[b]} {lo[b].tolist()}..{hi[b].tolist()} overlap")
        if len(hist) > 1 and int(hist[-1].ts.step_type) == 2:
            # the played action was masked in, so this end is the documented "no action can be performed, i.e. no items fit
            # in any EMSs, or all items have been packed". Actions only exist for the EMSs shown to the agent, so "any EMS" is
            # read as "any EMS of the action space" (narrow reading: with obs_num_ems < max_num_ems a hidden EMS is not an action).
            m = self.legal(s, env)
            if m.any():
                i, j = np.argwhere(m)[0]
                return ("ended_although_an_item_still_fits", f"episode ended after a valid action but action [{i},{j}] is still possible: "
                        + self.describe(s, env, (int(i), int(j))))
        return None

    # ---- C08 -------------------------------------------------------------------------------------
    def objective(self, hist, env, cfg):
        return self._utilisation(hist[-1].state)

    def sparse_twin(self, c):
        other = "sparse" if c["rew"] == "dense" else "dense"
        d = dict(c)
        d["rew"] = other
        d["id"] = f"{c['id']}~{other}"
        d["quick"] = False
        return d

    # ---- reach probes ---------------------------------------------------------------------------
    def events(self, ps, action, s, ts, env, cfg):
        n_obs = int(env.obs_num_ems)
        active = np.asarray(s.ems_mask).astype(bool)
        if ps is None:
            ev = [f"reset_gen_{cfg.get('gen', 'unknown')}"]
            if not np.asarray(s.items_mask).astype(bool).all():
                ev.append("reset_padding_items")
            if n_obs < len(active):
                ev.append("reset_obs_num_ems_lt_max_num_ems")
            return ev
        i, j = int(action[0]), int(action[1])
        e = int(self._shown(ps, env)[i])
        p_active = np.asarray(ps.ems_mask).astype(bool)
        room = _dims(_space(ps.ems)[e])
        item = _items(ps.items)[j]
        if not self.legal(ps, env)[i, j]:
            ev = ["ended_invalid_action"]
            if not p_active[e]:
                ev.append("invalid_inactive_ems_slot")
            if not bool(np.asarray(ps.items_mask)[j]):
                ev.append("invalid_padding_item")
            elif bool(np.asarray(ps.items_placed)[j]):
                ev.append("invalid_item_already_placed")
            elif p_active[e] and (item > room).any():
                ev.append("invalid_item_does_not_fit")
            return ev
        n0, n1 = int(p_active.sum()), int(active.sum())
        ev = ["item_placed", "ems_count_decreased" if n1 < n0 else ("ems_count_increased" if n1 > n0 else "ems_count_unchanged")]
        flags = {"ems_table_full": active.all(), "more_active_ems_than_observed": n1 > n_obs, "no_ems_left": n1 == 0,
                 "item_fills_ems_exactly": (item == room).all(), "placed_in_non_largest_slot": i > 0,
                 "placed_above_floor": int(_space(ps.ems)[e][4]) > int(_space(ps.container)[..., 4].reshape(-1)[0])}
        ev += [k for k, v in flags.items() if bool(v)]
        open_left = np.asarray(s.items_mask).astype(bool) & ~np.asarray(s.items_placed).astype(bool)
        if not open_left.any():
            ev.append("all_items_placed")
        elif int(ts.step_type) == 2:
            ev.append("ended_nothing_fits")
            if n1 > n_obs:
                ev.append("ended_nothing_fits_with_hidden_ems")
        return ev

    # ---- C12 -------------------------------------------------------------------------------------
    def observe(self, s, obs, env, cfg):
        n_obs = int(env.obs_num_ems)
        norm = bool(cfg["norm"])
        cont = _dims(_space(s.container)).astype(np.float64)  # container lengths per axis
        table = _space(s.ems)
        active = np.asarray(s.ems_mask).astype(bool)
        shown = self._shown(s, env)
        o_mask = np.asarray(obs.ems_mask)
        if o_mask.shape != (n_obs,):
            return ("ems_mask_shape", f"{o_mask.shape} expected {(n_obs,)}")
        o_mask = o_mask.astype(bool)
        o_ems = np.stack([np.asarray(getattr(obs.ems, k)) for k in COORDS], axis=-1)  # (obs, 6)
        o_items = np.stack([np.asarray(obs.items.x_len), np.asarray(obs.items.y_len), np.asarray(obs.items.z_len)], axis=-1)
        want_kind = "f" if norm else "i"
        for nm, arr in (("ems", o_ems), ("items", o_items)):
            if arr.dtype.kind != want_kind:
                return (f"{nm}_dtype", f"observation {nm} have dtype {arr.dtype} with normalize_dimensions={norm}")
        scale6 = np.repeat(cont, 2) if norm else np.ones(6)
        scale3 = cont if norm else np.ones(3)
        # every EMS shown as valid is an active EMS of the state, scaled per axis; slot i shows the table entry the state
        # records for slot i (that is the EMS an action [i, .] refers to)
        want_ems = table[shown] / scale6
        if not np.array_equal(o_mask, active[shown]):
            i = int(np.flatnonzero(o_mask != active[shown])[0])
            return ("ems_mask", f"slot {i}: ems_mask {bool(o_mask[i])} but state EMS {int(shown[i])} active={bool(active[shown][i])}")
        for i in np.flatnonzero(o_mask):
            ok = np.isclose(o_ems[i], want_ems[i], rtol=1e-5, atol=1e-6) if norm else (o_ems[i] == want_ems[i])
            if not np.all(ok):
                return ("ems_coordinates", f"slot {int(i)} shows {o_ems[i].tolist()} but state EMS {int(shown[i])} is {table[shown[i]].tolist()}"
                        f" (container lengths {cont.tolist()}, normalize={norm})")
        # the shown valid EMSs are the largest ones: multiset of volumes == top-k active volumes (tie order is free; the
        # env ranks float32 volumes, so volumes closer than float32 resolution may swap at the cut -> tolerance)
        all_v = sorted((float(v) for v in _vol(_dims(table[active]))), reverse=True)
        k = min(n_obs, len(all_v))
        got_v = sorted((float(v) for v in _vol(_dims(table[shown][o_mask]))), reverse=True)
        if len(got_v) != k:
            return ("number_of_ems_shown", f"{len(got_v)} valid EMSs shown, state has {len(all_v)} active and obs_num_ems={n_obs}")
        if len(set(shown[o_mask].tolist())) != len(got_v):
            return ("ems_shown_twice", f"shown table indexes {shown[o_mask].tolist()} repeat an EMS")
        if k and not np.allclose(got_v, all_v[:k], rtol=2e-6, atol=0):
            return ("not_the_largest_ems", f"volumes shown {got_v} but the {k} largest active volumes are {all_v[:k]}")
        want_items = _items(s.items) / scale3
        ok = np.isclose(o_items, want_items, rtol=1e-5, atol=1e-6) if norm else (o_items == want_items)
        if o_items.shape != want_items.shape or not np.all(ok):
            j = int(np.argwhere(~np.asarray(ok))[0][0]) if o_items.shape == want_items.shape else -1
            return ("items", f"item {j}: observation {o_items[j].tolist() if j >= 0 else o_items.shape} vs state {_items(s.items)[j].tolist()} "
                    f"(container lengths {cont.tolist()}, normalize={norm})")
        for f in ("items_mask", "items_placed"):
            if not np.array_equal(np.asarray(getattr(obs, f)), np.asarray(getattr(s, f))):
                return (f, f"observation.{f} {np.asarray(getattr(obs, f)).tolist()} vs state {np.asarray(getattr(s, f)).tolist()}")
        am = np.asarray(obs.action_mask)
        if am.shape != (n_obs, o_items.shape[0]) or not np.array_equal(am.astype(bool), np.asarray(s.action_mask).astype(bool)):
            return ("action_mask", "observation.action_mask != state.action_mask")
        # the mask speaks about the *shown* list: a valid entry must name a shown valid EMS and an open item that fits in it,
        # judged on the numbers the agent sees
        dims_seen = o_ems[:, [1, 3, 5]] - o_ems[:, [0, 2, 4]]
        tol = 1e-6 if norm else 0
        fit_seen = (o_items[None, :, :] <= dims_seen[:, None, :] + tol).all(axis=-1)
        bad = am.astype(bool) & ~(o_mask[:, None] & fit_seen & np.asarray(obs.items_mask).astype(bool)[None, :]
                                  & ~np.asarray(obs.items_placed).astype(bool)[None, :])
        if bad.any():
            i, j = np.argwhere(bad)[0]
            return ("action_mask_vs_shown_list", f"action_mask[{i},{j}] is True but by the observation itself the item does not fit / is not open "
                    f"/ the slot is not valid (slot dims {dims_seen[i].tolist()}, item {o_items[j].tolist()})")
        return None

    # ---- policies ----------------------------------------------------------------------------------
    def policy_complete(self, s, env, rng, legal):
        """Greedy: the largest open item that fits, into the tightest shown EMS."""
        if legal is None or not legal.any():
            return None
        cand = np.argwhere(legal)
        iv = _vol(_items(s.items))
        ev = _vol(_dims(_space(s.ems)[self._shown(s, env)]))
        order = rng.permutation(len(cand))
        best, best_key = None, None
        for n in order:
            i, j = int(cand[n][0]), int(cand[n][1])
            key = (-iv[j], ev[i])
            if best_key is None or key < best_key:
                best, best_key = [i, j], key
        return best
