"""Adapter registry: one module per jumanji environment."""
import importlib
from typing import Dict, List

MODULES = [
    "game_2048", "graph_coloring", "minesweeper", "rubiks_cube", "sliding_tile_puzzle", "sudoku",
    "bin_pack", "flat_pack", "job_shop", "knapsack", "tetris",
    "cleaner", "connector", "cvrp", "lbf", "maze", "mmst", "multi_cvrp", "pac_man", "robot_warehouse",
    "snake", "sokoban", "tsp",
]
_CACHE: Dict[str, object] = {}


def all_names() -> List[str]:
    return [get_by_module(m).name for m in MODULES]


def get_by_module(mod: str):
    if mod not in _CACHE:
        _CACHE[mod] = importlib.import_module(f"jsim.envs.{mod}").A()
    return _CACHE[mod]


def get(name: str):
    for m in MODULES:
        a = get_by_module(m)
        if a.name == name:
            return a
    raise KeyError(name)
