from jsim.envs.base import Adapter
from jsim.envs._mk import cfg


class A(Adapter):
    name = "JobShop"
    mask_mode = "per_agent"
    terminate_on_invalid = True

    def configs(self):
        return [
            cfg("j20m10", True, gen="random", j=20, m=10, o=8, d=6),
            cfg("j3m2", True, gen="random", j=3, m=2, o=3, d=2),
            cfg("toy", gen="toy", j=5, m=4, o=4, d=4),
            cfg("j6m3", gen="random", j=6, m=3, o=4, d=5),
            cfg("j2m4", gen="random", j=2, m=4, o=5, d=3),
        ]

    def build(self, c):
        from jumanji.environments import JobShop
        from jumanji.environments.packing.job_shop import generator as G
        if c["gen"] == "toy":
            return JobShop(generator=G.ToyGenerator())
        return JobShop(generator=G.RandomGenerator(num_jobs=c["j"], num_machines=c["m"], max_num_ops=c["o"], max_op_duration=c["d"]))

    def horizon(self, env, c):
        return int(env.num_jobs * env.max_num_ops * env.max_op_duration)

    def inspec_action(self, env, rng):
        return [int(rng.integers(0, env.num_jobs + 1)) for _ in range(env.num_machines)]
