"""JobShop: rules written from docs/environments/job_shop.md and the class docstring.

N jobs, each a sequence of operations (op = (machine, duration)); M machines. Time advances by one
per step. At time t every machine picks a job or the no-op (index num_jobs). Picking job j on
machine m is legal iff m is idle, the next unscheduled op of j needs m, j is not running on any
machine and j is unfinished; the no-op is always legal. A picked op starts at t and runs to
completion (start + duration). Reward -1 per step. The episode ends when every op has been
processed (finished schedule), on an illegal action, or when all machines are inactive at the same
time; the last two carry the penalty -num_jobs * max_num_ops * max_op_duration.

Everything below is derived from the *schedule* (`scheduled_times`, `ops_durations`,
`ops_machine_ids`, `step_count`); the env's bookkeeping (`machines_remaining_times`,
`machines_job_ids`, `ops_mask`, `action_mask`) is what gets judged against it.
"""
from __future__ import annotations

from typing import Any, Dict, List, Optional, Tuple

import numpy as np

from jsim.envs._mk import cfg
from jsim.envs.base import Adapter


class A(Adapter):
    name = "JobShop"
    run_scale = 1
    mask_mode = "per_agent"
    terminate_on_invalid = True
    has_invalid_effect = True
    has_constraints = True
    has_objective = True
    has_model = True
    has_observer = True

    def configs(self):
        return [
            cfg("j20m10", True, gen="random", j=20, m=10, o=8, d=6),
            cfg("j3m2", True, gen="random", j=3, m=2, o=3, d=2),
            cfg("toy", c02=True, gen="toy", j=5, m=4, o=4, d=4),
            cfg("j6m3", gen="random", j=6, m=3, o=4, d=5),
            cfg("j2m4", True, gen="random", j=2, m=4, o=5, d=3, c15=True),  # more machines than jobs
            cfg("j2m2d7", True, gen="random", j=2, m=2, o=3, d=7),  # few jobs, long operations: durations exceed every job / machine count
        ]

    def build(self, c):
        from jumanji.environments import JobShop
        from jumanji.environments.packing.job_shop import generator as G
        if c["gen"] == "toy":
            return JobShop(generator=G.ToyGenerator())
        return JobShop(generator=G.RandomGenerator(num_jobs=c["j"], num_machines=c["m"], max_num_ops=c["o"], max_op_duration=c["d"]))

    def horizon(self, env, c):
        return int(env.num_jobs * env.max_num_ops * env.max_op_duration)

    def inspec_action(self, env, rng):
        return [int(rng.integers(0, env.num_jobs + 1)) for _ in range(env.num_machines)]

    def base_action(self, s, env, legal):
        # the no-op index is num_jobs (last column of the mask); it depends on the configuration
        return [int(legal.shape[1]) - 1] * int(legal.shape[0])

    # ---- the schedule as the rules see it ----------------------------------------------------------
    @staticmethod
    def _penalty(c: Dict[str, Any]) -> float:
        return -float(c["j"] * c["o"] * c["d"])

    @staticmethod
    def _view(s: Any) -> Dict[str, Any]:
        mach = np.asarray(s.ops_machine_ids).astype(np.int64)
        dur = np.asarray(s.ops_durations).astype(np.int64)
        sch = np.asarray(s.scheduled_times).astype(np.int64)
        M = int(np.asarray(s.machines_remaining_times).shape[0])
        J, O = mach.shape
        valid = mach >= 0  # padded ops carry machine id -1
        started = valid & (sch >= 0)
        end = np.where(started, sch + dur, 0)
        job_until = end.max(axis=1) if O else np.zeros(J, np.int64)  # time at which the job's last started op completes
        mach_until = np.zeros(M, np.int64)  # time at which the machine's last started op completes
        mach_job = np.full(M, -1, np.int64)  # job of that op
        for j, k in np.argwhere(started):
            m = int(mach[j, k])
            if 0 <= m < M and end[j, k] > mach_until[m]:
                mach_until[m] = end[j, k]
                mach_job[m] = j
        nxt = np.full(J, -1, np.int64)  # next op of each job = first real op that has not been started
        for j in range(J):
            todo = np.flatnonzero(valid[j] & (sch[j] < 0))
            if len(todo):
                nxt[j] = todo[0]
        return {"mach": mach, "dur": dur, "sch": sch, "valid": valid, "started": started, "end": end, "job_until": job_until,
                "mach_until": mach_until, "mach_job": mach_job, "next": nxt, "now": int(s.step_count), "J": J, "O": O, "M": M}

    # ---- C04 -----------------------------------------------------------------------------------------
    def legal(self, s: Any, env: Any) -> np.ndarray:
        v = self._view(s)
        J, M, now = v["J"], v["M"], v["now"]
        out = np.zeros((M, J + 1), bool)
        out[:, J] = True  # no-op always
        for m in range(M):
            if v["mach_until"][m] > now:
                continue  # machine busy
            for j in range(J):
                k = int(v["next"][j])
                if k < 0:
                    continue  # job finished
                if v["job_until"][j] > now:
                    continue  # one of the job's ops is still running (on whatever machine)
                if int(v["mach"][j, k]) == m:
                    out[m, j] = True
        return out

    def describe(self, s, env, idx):
        v = self._view(s)
        m, j = int(idx[0]), int(idx[1])
        if j == v["J"]:
            return f"machine {m}: no-op"
        k = int(v["next"][j])
        need = int(v["mach"][j, k]) if k >= 0 else None
        return (f"t={v['now']} machine {m} (busy until {int(v['mach_until'][m])}, remaining_times={int(np.asarray(s.machines_remaining_times)[m])}) "
                f"job {j}: next op {k} needs machine {need}, job busy until {int(v['job_until'][j])}")

    # ---- C05 -----------------------------------------------------------------------------------------
    def invalid_effect(self, ps, action, illegal, s, ts, env, cfg):
        if int(ts.step_type) != 2:
            return ("invalid_action_not_terminal", f"step_type {int(ts.step_type)} after an illegal action (machines {illegal})")
        want = self._penalty(cfg)
        if not np.isclose(float(ts.reward), want, rtol=1e-5, atol=1e-6):
            return ("invalid_action_reward", f"reward {float(ts.reward)} != documented penalty {want}")
        if float(ts.discount) != 0.0:
            return ("invalid_action_discount", f"discount {float(ts.discount)} != 0 on the terminal step")
        return None

    # ---- C06 -----------------------------------------------------------------------------------------
    @staticmethod
    def _all_inactive(pv: Dict[str, Any], action: Any) -> bool:
        """No machine works during [t, t+1): nothing is running at t and every machine plays the no-op."""
        return bool(all(int(a) == pv["J"] for a in action) and (pv["mach_until"] <= pv["now"]).all())

    def constraints(self, hist, env, cfg):
        last = hist[-1]
        v = self._view(last.state)
        J, O, M, now = v["J"], v["O"], v["M"], v["now"]
        mach, dur, sch, valid, started, end = v["mach"], v["dur"], v["sch"], v["valid"], v["started"], v["end"]
        # the schedule replayed from the recorded actions: action[m] == j at time t starts the next op of j on m at t
        rsch = np.full((J, O), -1, np.int64)
        cnt = [0] * J
        for t, r in enumerate(h for h in hist[1:] if not h.post_terminal):
            for m, j in enumerate(r.action):
                j = int(j)
                if j >= J:
                    continue
                real = np.flatnonzero(valid[j])
                if cnt[j] >= len(real):
                    return ("op_beyond_last", f"job {j} was scheduled at t={t} although all its {len(real)} ops had been scheduled")
                k = int(real[cnt[j]])
                if int(mach[j, k]) != m:
                    return ("op_on_wrong_machine", f"op {k} of job {j} needs machine {int(mach[j, k])} but was started on machine {m} at t={t}")
                if rsch[j, k] >= 0:
                    return ("op_started_twice", f"op {k} of job {j} started at {int(rsch[j, k])} and again at {t}")
                rsch[j, k] = t
                cnt[j] += 1
        if not np.array_equal(rsch, sch):
            j, k = np.argwhere(rsch != sch)[0]
            return ("schedule_disagrees_with_history", f"scheduled_times[{j},{k}]={int(sch[j, k])} but the action history started it at {int(rsch[j, k])}")
        if (sch[~valid] >= 0).any():
            j, k = np.argwhere(~valid & (sch >= 0))[0]
            return ("padded_op_scheduled", f"padding op [{j},{k}] has scheduled time {int(sch[j, k])}")
        if (sch[started] >= now).any():
            j, k = np.argwhere(started & (sch >= now))[0]
            return ("op_scheduled_in_future", f"op [{j},{k}] scheduled at {int(sch[j, k])} but the clock is {now}")
        for j in range(J):  # precedence + one op of a job at a time
            real = np.flatnonzero(valid[j])
            for a, b in zip(real[:-1], real[1:]):
                if sch[j, b] >= 0:
                    if sch[j, a] < 0:
                        return ("job_order", f"job {j}: op {b} started at {int(sch[j, b])} before op {a} was started")
                    if sch[j, b] < end[j, a]:
                        return ("job_ops_overlap", f"job {j}: op {b} starts at {int(sch[j, b])} before op {a} ends at {int(end[j, a])}")
        for m in range(M):  # a machine works on one op at a time
            iv = sorted((int(sch[j, k]), int(end[j, k]), int(j), int(k)) for j, k in np.argwhere(started & (mach == m)))
            for p, q in zip(iv[:-1], iv[1:]):
                if q[0] < p[1]:
                    return ("machine_ops_overlap", f"machine {m}: op {q[2:]} starts at {q[0]} before op {p[2:]} ends at {p[1]}")
        if len(hist) > 1 and int(last.ts.step_type) == 2:
            pv = self._view(last.prev_state)
            if not self._all_inactive(pv, last.action):  # the documented "simultaneously idle" ending is not a completion
                if (valid & ~started).any():
                    j, k = np.argwhere(valid & ~started)[0]
                    return ("incomplete_at_completion", f"episode ended by completion but op [{j},{k}] was never scheduled")
                if end.max() > now:
                    return ("unfinished_at_completion", f"episode ended by completion at t={now} but an op runs until {int(end.max())}")
        return None

    # ---- C08 -----------------------------------------------------------------------------------------
    def objective(self, hist, env, cfg):
        last = hist[-1]
        if len(hist) < 2 or int(last.ts.step_type) != 2:
            return None
        v = self._view(last.state)
        if (v["valid"] & ~v["started"]).any():
            return None  # not a finished schedule (idle / illegal ending: documented penalty, not judged)
        if self._all_inactive(self._view(last.prev_state), last.action):
            return None
        return -float(v["end"].max())  # minus makespan

    # ---- C09 -----------------------------------------------------------------------------------------
    def model_step(self, ps, action, s, ts, env, cfg):
        pv = self._view(ps)
        J, O, M, t = pv["J"], pv["O"], pv["M"], pv["now"]
        act = [int(a) for a in action]
        leg = self.legal(ps, env)
        illegal = [m for m in range(M) if not leg[m, act[m]]]
        last = int(ts.step_type) == 2
        pen = self._penalty(cfg)
        if illegal:  # the successor state is unspecified; only reward and termination are documented
            if not last:
                return ("termination", f"illegal action on machines {illegal} but step_type {int(ts.step_type)}")
            if not np.isclose(float(ts.reward), pen, rtol=1e-5, atol=1e-6):
                return ("reward", f"reward {float(ts.reward)} after an illegal action, documented penalty {pen}")
            return None
        # legal joint action: ops start now
        sch = pv["sch"].copy()
        for m, j in enumerate(act):
            if j < J:
                sch[j, int(pv["next"][j])] = t
        if int(s.step_count) != t + 1:
            return ("clock", f"step_count {int(s.step_count)} expected {t + 1}")
        got = np.asarray(s.scheduled_times)
        if not np.array_equal(got, sch):
            j, k = np.argwhere(got != sch)[0]
            return ("scheduled_times", f"scheduled_times[{j},{k}]={int(got[j, k])} expected {int(sch[j, k])} (action {act} at t={t})")
        for name in ("ops_machine_ids", "ops_durations"):
            if not np.array_equal(np.asarray(getattr(s, name)), np.asarray(getattr(ps, name))):
                return ("instance_changed", f"{name} changed during the episode")
        v = self._view(s)  # successor schedule == predicted schedule (just compared) viewed at t + 1
        want_mask = v["valid"] & ~v["started"]
        if not np.array_equal(np.asarray(s.ops_mask).astype(bool), want_mask):
            j, k = np.argwhere(np.asarray(s.ops_mask).astype(bool) != want_mask)[0]
            return ("ops_mask", f"ops_mask[{j},{k}]={bool(np.asarray(s.ops_mask)[j, k])} but the op is {'not ' if want_mask[j, k] else ''}scheduled")
        rem = np.clip(v["mach_until"] - (t + 1), 0, None)
        grem = np.asarray(s.machines_remaining_times)
        if not np.array_equal(grem, rem):
            m = int(np.flatnonzero(grem != rem)[0])
            return ("machines_remaining_times", f"machine {m}: remaining time {int(grem[m])} expected {int(rem[m])} (its last op ends at {int(v['mach_until'][m])}, clock {t + 1})")
        gid = np.asarray(s.machines_job_ids)
        for m in range(M):
            if rem[m] > 0:
                ok = int(gid[m]) == int(v["mach_job"][m])
                exp = f"{int(v['mach_job'][m])}"
            elif v["mach_until"][m] == t + 1:
                # the op completed exactly now: the docs do not say whether the finished job or the no-op is shown
                ok = int(gid[m]) in (int(v["mach_job"][m]), J)
                exp = f"{int(v['mach_job'][m])} or no-op {J}"
            else:
                ok = int(gid[m]) == J  # machine did nothing during this time step
                exp = f"no-op {J}"
            if not ok:
                return ("machines_job_ids", f"machine {m}: job id {int(gid[m])} expected {exp}")
        idle = self._all_inactive(pv, act)
        finished = not want_mask.any() and int(v["end"].max()) <= t + 1
        want_reward = pen if idle else -1.0
        if not np.isclose(float(ts.reward), want_reward, rtol=1e-5, atol=1e-6):
            return ("reward", f"reward {float(ts.reward)} expected {want_reward} (all machines inactive={idle}, finished={finished})")
        if last != (idle or finished):
            return ("termination", f"step_type {int(ts.step_type)} but the rules say done={idle or finished} (all machines inactive={idle}, finished={finished})")
        return None

    # ---- C11 (structural horizon only; kept for completeness) --------------------------------------------
    def end_cause(self, ps, action, s, ts, env, cfg):
        act = [int(a) for a in action]
        leg = self.legal(ps, env)
        if any(not leg[m, a] for m, a in enumerate(act)):
            return "invalid_action"
        if self._all_inactive(self._view(ps), act):
            return "all_machines_idle"
        v = self._view(s)
        if not (v["valid"] & ~v["started"]).any() and int(v["end"].max()) <= v["now"]:
            return "schedule_finished"
        return None

    # ---- reach probes -------------------------------------------------------------------------------
    def events(self, ps, action, s, ts, env, cfg):
        if ps is None:
            v = self._view(s)
            ev = [f"reset_gen_{cfg.get('gen', 'unknown')}"]
            if not v["valid"].all():
                ev.append("reset_padded_ops")
            if (self.legal(s, env)[:, :v["J"]].sum(axis=1) >= 2).any():
                ev.append("reset_jobs_contend_for_machine")
            return ev
        pv = self._view(ps)
        J, M, t = pv["J"], pv["M"], pv["now"]
        act = [int(a) for a in action]
        leg = self.legal(ps, env)
        bad = [m for m in range(M) if not leg[m, act[m]]]
        picks = [j for j in act if j < J]
        ev = ["two_machines_pick_same_job"] if len(set(picks)) < len(picks) else []
        if bad:
            ev.append("ended_invalid_action")
            for m in bad:
                j = act[m]
                k = int(pv["next"][j])
                ev.append("invalid_machine_busy" if pv["mach_until"][m] > t else "invalid_job_finished" if k < 0 else
                          "invalid_job_running" if pv["job_until"][j] > t else "invalid_wrong_machine")
            return sorted(set(ev))
        free = leg[:, :J].sum(axis=1)  # startable jobs per machine
        if (free >= 2).any():
            ev.append("jobs_contend_for_idle_machine")
        if any(act[m] == J and free[m] > 0 for m in range(M)):
            ev.append("noop_although_job_startable")
        ev.append("all_machines_noop" if not picks else ("ops_started_ge_2" if len(picks) >= 2 else "one_op_started"))
        if self._all_inactive(pv, act):
            ev.append("ended_all_machines_idle")
        durs = [int(pv["dur"][j, int(pv["next"][j])]) for j in picks]
        ev += ["op_of_duration_1_started"] * (1 in durs) + ["op_of_max_duration_started"] * (int(cfg.get("d", -1)) in durs)
        v = self._view(s)
        fin0 = (pv["next"] < 0) & (pv["job_until"] <= t)
        fin1 = (v["next"] < 0) & (v["job_until"] <= t + 1)
        newly = int((fin1 & ~fin0).sum())
        ev += ["job_finished"] * (newly >= 1) + ["two_jobs_finished_at_once"] * (newly >= 2)
        if picks and not (v["valid"] & ~v["started"]).any():
            ev.append("last_op_started")
        if fin1.all():
            ev.append("ended_schedule_finished")
        return ev

    # ---- C12 -----------------------------------------------------------------------------------------
    def observe(self, s, obs, env, cfg):
        for name in ("ops_machine_ids", "ops_durations", "ops_mask", "machines_job_ids", "machines_remaining_times", "action_mask"):
            a, b = np.asarray(getattr(obs, name)), np.asarray(getattr(s, name))
            if a.shape != b.shape or not np.array_equal(a, b):
                where = np.argwhere(a != b)[0].tolist() if a.shape == b.shape else f"shapes {a.shape} vs {b.shape}"
                return (name, f"observation.{name} differs from the state at {where}")
        return None

    # ---- policies --------------------------------------------------------------------------------------
    def policy_complete(self, s, env, rng, legal):
        """Greedy: every machine starts some legal job if there is one, else no-op."""
        if legal is None:
            return None
        J = legal.shape[1] - 1
        out = []
        taken = set()
        for m in range(legal.shape[0]):
            opts = [int(j) for j in np.flatnonzero(legal[m, :J]) if int(j) not in taken]
            if opts:
                j = opts[int(rng.integers(0, len(opts)))]
                taken.add(j)
                out.append(j)
            else:
                out.append(J)
        return out

    def policy_survive(self, s, env, rng, legal):
        """Stall as long as the rules allow: one machine keeps working, the others wait."""
        if legal is None:
            return None
        J = legal.shape[1] - 1
        out = [J] * legal.shape[0]
        v = self._view(s)
        if (v["mach_until"] > v["now"]).any():
            return out  # something is running: everybody else can wait
        for m in range(legal.shape[0]):
            opts = np.flatnonzero(legal[m, :J])
            if len(opts):
                # longest next op first
                durs = [int(v["dur"][j, int(v["next"][j])]) for j in opts]
                out[m] = int(opts[int(np.argmax(durs))])
                return out
        return out
