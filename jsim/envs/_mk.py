"""Small helpers shared by adapters."""
from typing import Any, Dict, List


def cfg(id: str, quick: bool = False, **kw: Any) -> Dict[str, Any]:
    d = {"id": id, "quick": quick}
    d.update(kw)
    return d


def cross_tl(bases: List[Dict[str, Any]], tls: List[Any], quick_tl: Any = 3) -> List[Dict[str, Any]]:
    """Cross the first base config with explicit time limits (CLOCK_EDGE configurations)."""
    out = list(bases)
    b = bases[0]
    small = bases[1] if len(bases) > 1 else bases[0]
    for tl in tls:
        # the default limit (time_limit=None) is a function of the grid shape in some envs: exercise it
        # on the default configuration and on the small (non-square) one
        for src in (([b, small] if small is not b else [b]) if tl is None else [small]):
            d = dict(src)
            d["id"] = f"{src['id']}+tl{tl}"
            d["tl"] = tl
            d["quick"] = tl == quick_tl
            d["clock"] = True
            if tl is None and src is b and small is not b:
                d["long_default"] = True
            out.append(d)
    return out
