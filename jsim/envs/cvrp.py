"""CVRP: rules written from docs/environments/cvrp.md and the class docstring.

num_nodes customers (indices 1..num_nodes) with integer demands plus the depot (index 0, demand 0); one
vehicle of capacity max_capacity starting at the depot. An action is the index of the next node to visit.
Each customer must be visited exactly once and have its demand covered: a customer is a possible action
iff it is unvisited and its demand does not exceed the remaining capacity; visiting the depot restores the
full capacity and is possible iff the vehicle is not already there. `trajectory` (2*num_nodes slots, depot
index where not filled yet) records the nodes visited, starting with the depot. The episode ends when no
action can be performed (all customers served and the vehicle back at the depot) or on an invalid action,
which carries the penalty -2*num_nodes*sqrt(2). Dense reward: minus the distance travelled by the step (plus
the distance to the depot on the last node); sparse: minus the length of the whole route on the last step.
The observation shows demands and capacity divided by max_capacity.
"""
from __future__ import annotations

from typing import Any, List, Tuple

import numpy as np

from jsim.envs._mk import cfg
from jsim.envs.base import Adapter

DEPOT = 0
PROBLEM_FIELDS = ("coordinates", "demands", "position", "capacity", "visited_mask", "trajectory", "num_total_visits")


def _dist(xy: np.ndarray, i: int, j: int) -> float:
    d = np.asarray(xy[int(i)], np.float64) - np.asarray(xy[int(j)], np.float64)
    return float(np.sqrt((d * d).sum()))


def _close(a: float, b: float) -> bool:
    # eager vs jit differ by one ulp on the penalty constant: always compare with a tolerance
    return bool(np.isclose(a, b, rtol=1e-5, atol=1e-5))


class A(Adapter):
    name = "CVRP"
    mask_mode = "flat"
    terminate_on_invalid = True
    has_reaction = True
    has_invalid_effect = True
    has_constraints = True
    has_objective = True
    has_model = True
    has_observer = True

    def configs(self):
        return [cfg("n20", True, n=20, cap=30, dem=10, rew="dense"), cfg("n5sparse", True, n=5, cap=6, dem=5, rew="sparse"),
                cfg("n10c10d10", n=10, cap=10, dem=10, rew="dense"), cfg("n8c40d3sparse", n=8, cap=40, dem=3, rew="sparse")]

    def build(self, c):
        from jumanji.environments import CVRP
        from jumanji.environments.routing.cvrp import generator as G
        from jumanji.environments.routing.cvrp import reward as R
        rf = R.DenseReward() if c["rew"] == "dense" else R.SparseReward()
        return CVRP(generator=G.UniformGenerator(num_nodes=c["n"], max_capacity=c["cap"], max_demand=c["dem"]), reward_fn=rf)

    def horizon(self, env, c):
        return 2 * c["n"]

    # ---- rules ---------------------------------------------------------------------------------
    @staticmethod
    def _route(s: Any) -> List[int]:
        """Nodes visited so far in order (starts with the depot): the filled prefix of the trajectory."""
        k = int(s.num_total_visits)
        return [int(c) for c in np.asarray(s.trajectory)[:k]]

    @staticmethod
    def _penalty(n: int) -> float:
        return -2.0 * float(n) * float(np.sqrt(2.0))

    def _served(self, s: Any) -> np.ndarray:
        n1 = int(np.asarray(s.demands).shape[0])
        out = np.zeros(n1, bool)
        for c in self._route(s):
            if 0 < c < n1:
                out[c] = True
        return out

    def legal(self, s: Any, env: Any) -> np.ndarray:
        dem = np.asarray(s.demands)
        served = self._served(s)
        out = ~served & (dem <= int(s.capacity))
        out[DEPOT] = int(s.position) != DEPOT
        return out

    def describe(self, s, env, idx):
        i = int(idx[0])
        return (f"node {i} demand {int(np.asarray(s.demands)[i])}, remaining capacity {int(s.capacity)}, position {int(s.position)}, "
                f"route so far {self._route(s)}")

    # ---- C04 (b) -------------------------------------------------------------------------------
    def reaction_invalid(self, ps, action, agent, s, ts, env, cfg):
        # invalid signature: LAST carrying the documented penalty. A completing move returns to the depot
        # (dense: >= -sqrt(2); sparse: minus a route length that reaches 2n*sqrt(2) only for degenerate instances)
        if int(ts.step_type) != 2:
            return False
        return _close(float(ts.reward), self._penalty(cfg["n"]))

    # ---- C05 -----------------------------------------------------------------------------------
    def invalid_effect(self, ps, action, illegal, s, ts, env, cfg):
        n = cfg["n"]
        if int(ts.step_type) != 2:
            return ("invalid_move_not_terminal", f"step_type {int(ts.step_type)} after an invalid move to node {int(action)} ({self.describe(ps, env, (int(action),))})")
        if not _close(float(ts.reward), self._penalty(n)):
            return ("invalid_move_reward", f"reward {float(ts.reward)} != documented penalty -2*num_nodes*sqrt(2) = {self._penalty(n)}")
        if float(np.asarray(ts.discount)) != 0.0:
            return ("invalid_move_discount", f"discount {float(np.asarray(ts.discount))} != 0 on the terminal step")
        for f in PROBLEM_FIELDS:
            if not np.array_equal(np.asarray(getattr(ps, f)), np.asarray(getattr(s, f))):
                return ("invalid_move_changed_state", f"field {f} changed on an invalid move: {np.asarray(getattr(ps, f)).tolist()} -> {np.asarray(getattr(s, f)).tolist()}")
        return None

    # ---- C06 -----------------------------------------------------------------------------------
    def constraints(self, hist, env, cfg):
        n, cap = cfg["n"], cfg["cap"]
        s0, s = hist[0].state, hist[-1].state
        dem = np.asarray(s0.demands).astype(np.int64)
        steps = [r for r in hist[1:] if not r.post_terminal]
        acts = [int(r.action) for r in steps]
        # walk the action history: load carried since the last depot visit, customers served
        load, served = 0, []
        for t, a in enumerate(acts):
            if a == DEPOT:
                load = 0
                continue
            if a in served:
                return ("customer_served_twice", f"legal play served customer {a} twice: actions {acts}")
            served.append(a)
            load += int(dem[a])
            if load > cap:
                return ("load_exceeds_capacity", f"after action #{t + 1} (customer {a}, demand {int(dem[a])}) the load since the last depot visit is "
                        f"{load} > capacity {cap}: actions {acts}")
        # the state must describe exactly this partial route
        route = [DEPOT] + acts
        traj = np.asarray(s.trajectory)
        want = np.zeros(traj.shape[0], dtype=np.int64)  # unfilled slots hold the depot index
        m = min(len(route), traj.shape[0])  # 1 + 2n visits do not fit 2n slots; the overflowing visit is a depot return
        want[:m] = route[:m]
        if not np.array_equal(traj, want):
            return ("trajectory_differs_from_history", f"trajectory {traj.tolist()} but the route played was {route}")
        if int(s.num_total_visits) != len(route):
            return ("num_total_visits_differs_from_history", f"num_total_visits {int(s.num_total_visits)} after a route of {len(route)} visits")
        if int(s.position) != route[-1]:
            return ("position_differs_from_history", f"position {int(s.position)} but the last node visited was {route[-1]}")
        if int(s.capacity) != cap - load or int(s.capacity) < 0:
            return ("capacity_differs_from_history", f"remaining capacity {int(s.capacity)} but capacity {cap} minus the load {load} carried since the last "
                    f"depot visit is {cap - load}")
        vm = np.asarray(s.visited_mask).astype(bool)
        sv = np.zeros(n + 1, bool)
        sv[served] = True
        if not np.array_equal(vm[1:], sv[1:]):  # the depot entry has no documented meaning
            return ("visited_mask_differs_from_history", f"visited customers {(np.flatnonzero(vm[1:]) + 1).tolist()} but customers served were {sorted(served)}")
        if not np.array_equal(np.asarray(s.demands), np.asarray(s0.demands)) or not np.array_equal(np.asarray(s.coordinates), np.asarray(s0.coordinates)):
            return ("instance_changed", "demands / coordinates differ from those of the reset state")
        if steps and int(hist[-1].ts.step_type) == 2:
            if len(served) != n:
                return ("ended_with_unserved_customers", f"episode ended under legal play with customers {sorted(set(range(1, n + 1)) - set(served))} unserved")
            if route[-1] != DEPOT:
                return ("ended_away_from_depot", f"episode ended under legal play with the vehicle at node {route[-1]}")
        return None

    # ---- C08 -----------------------------------------------------------------------------------
    @staticmethod
    def _route_length(xy: np.ndarray, route: List[int]) -> float:
        closed = list(route) + [DEPOT]  # including the return to the depot
        return sum(_dist(xy, closed[i], closed[i + 1]) for i in range(len(closed) - 1))

    def objective(self, hist, env, cfg):
        s = hist[-1].state
        n = cfg["n"]
        k = min(int(s.num_total_visits), int(np.asarray(s.trajectory).shape[0]))  # a visit beyond the last slot is a depot return
        route = [int(c) for c in np.asarray(s.trajectory)[:k]]
        if sorted(c for c in route if c != DEPOT) != list(range(1, n + 1)) or int(s.position) != DEPOT:
            return None  # not a complete route: objective undefined
        return -self._route_length(np.asarray(s.coordinates), route)

    def sparse_twin(self, c):
        d = dict(c)
        d["rew"] = "sparse" if c["rew"] == "dense" else "dense"
        d["id"] = f"{c['id']}~{d['rew']}"
        return d

    # ---- C09 -----------------------------------------------------------------------------------
    def model_step(self, ps, action, s, ts, env, cfg):
        n, cap = cfg["n"], cfg["cap"]
        a = int(action)
        dem = np.asarray(ps.demands).astype(np.int64)
        xy = np.asarray(ps.coordinates)
        pos, rem = int(ps.position), int(ps.capacity)
        served = self._served(ps)
        if a == DEPOT:
            ok = pos != DEPOT
        else:
            ok = (not served[a]) and int(dem[a]) <= rem
        if not ok:  # invalid: terminates with the penalty; the state is not judged here (C05 does)
            want_r, done = self._penalty(n), True
        else:
            new_rem = cap if a == DEPOT else rem - int(dem[a])
            new_served = served.copy()
            if a != DEPOT:
                new_served[a] = True
            done = bool(new_served[1:].all()) and a == DEPOT  # no action can be performed any more
            route = self._route(ps)
            if cfg["rew"] == "dense":
                want_r = -_dist(xy, pos, a)
                if done:
                    want_r -= _dist(xy, a, DEPOT)  # "for the last node it also includes the distance to the depot" (0 here)
            else:
                want_r = -self._route_length(xy, route + [a]) if done else 0.0
            if int(s.position) != a:
                return ("position", f"position {int(s.position)} expected {a}")
            if int(s.capacity) != new_rem:
                return ("capacity", f"capacity {int(s.capacity)} expected {new_rem} (was {rem}, node {a} demand {int(dem[a])})")
            if not np.array_equal(np.asarray(s.visited_mask).astype(bool)[1:], new_served[1:]):
                return ("visited_mask", f"visited customers {(np.flatnonzero(np.asarray(s.visited_mask)[1:]) + 1).tolist()} expected {(np.flatnonzero(new_served[1:]) + 1).tolist()}")
            traj = np.asarray(ps.trajectory).astype(np.int64).copy()
            k = int(ps.num_total_visits)
            if k < traj.shape[0]:
                traj[k] = a
            if not np.array_equal(np.asarray(s.trajectory), traj):
                return ("trajectory", f"trajectory {np.asarray(s.trajectory).tolist()} expected {traj.tolist()}")
            if int(s.num_total_visits) != k + 1:
                return ("num_total_visits", f"num_total_visits {int(s.num_total_visits)} expected {k + 1}")
            if not np.array_equal(np.asarray(s.demands), np.asarray(ps.demands)) or not np.array_equal(np.asarray(s.coordinates), xy):
                return ("instance", "demands / coordinates changed during a step")
        if not _close(float(ts.reward), want_r):
            return ("reward", f"reward {float(ts.reward)} expected {want_r} ({cfg['rew']}, from node {pos} to {a}, valid={ok})")
        if (int(ts.step_type) == 2) != done:
            return ("termination", f"step_type {int(ts.step_type)} but the rules say done={done} (from node {pos} to {a}, valid={ok})")
        return None

    # ---- C11 -----------------------------------------------------------------------------------
    def end_cause(self, ps, action, s, ts, env, cfg):
        a = int(action)
        if not self.legal(ps, env)[a]:
            return "invalid_action"
        if a == DEPOT and bool(self._served(ps)[1:].all()):
            return "all_served_and_back_at_depot"
        return None

    # ---- reach probes ----------------------------------------------------------------------------
    def events(self, ps, action, s, ts, env, cfg):
        dem = np.asarray(s.demands).astype(np.int64)
        if ps is None:
            return ((["reset_total_demand_fits_one_trip"] if int(dem.sum()) <= int(s.capacity) else [])
                    + (["reset_customer_demand_equals_capacity"] if (dem[1:] == int(s.capacity)).any() else [])
                    + (["reset_sparse_reward"] if cfg.get("rew") == "sparse" else []))
        a, pos, rem = int(action), int(ps.position), int(ps.capacity)
        served = self._served(ps)
        fits_before = ~served & (dem <= rem)
        fits_before[DEPOT] = False
        if a == DEPOT and pos == DEPOT:
            return ["end_invalid_depot_while_at_depot"]
        if a != DEPOT and served[a]:
            return ["end_invalid_customer_already_served"]
        if a != DEPOT and int(dem[a]) > rem:
            return ["end_invalid_demand_exceeds_capacity"]
        ev = []
        if a == DEPOT:
            ev.append("depot_return")
            ev.append("depot_return_forced_nothing_fits" if not fits_before.any() else "depot_return_while_customer_fits")
            if rem == 0:
                ev.append("depot_return_with_capacity_spent")
            if bool(served[1:].all()):
                ev.append("end_all_served_back_at_depot")
        else:
            if int(dem[a]) == rem:
                ev.append("demand_equals_remaining_capacity")
            if int(s.capacity) == 0:  # read from the successor state (the line above is the rule's view of the same edge)
                ev.append("capacity_exhausted")
            left = ~served
            left[[DEPOT, a]] = False
            if not left.any():
                ev.append("last_customer_served")
            elif not (dem[left] <= rem - int(dem[a])).any():
                ev.append("no_remaining_customer_fits")
        k, slots = int(s.num_total_visits), int(np.asarray(s.trajectory).shape[0])
        if k >= slots:
            ev.append("trajectory_slots_full" if k == slots else "trajectory_slots_overflow")
        return ev

    # ---- C12 -----------------------------------------------------------------------------------
    def observe(self, s, obs, env, cfg):
        cap = float(cfg["cap"])
        if not np.array_equal(np.asarray(obs.coordinates), np.asarray(s.coordinates)):
            return ("coordinates", "obs.coordinates != state.coordinates")
        want_d = np.asarray(s.demands, np.float64) / cap
        d = np.asarray(obs.demands)
        if d.shape != want_d.shape or not np.allclose(d, want_d, rtol=1e-5, atol=1e-6):
            return ("demands", f"obs.demands {d.tolist()} vs demands / max_capacity {want_d.tolist()}")
        u = np.asarray(obs.unvisited_nodes)
        if not np.array_equal(u.astype(bool), ~np.asarray(s.visited_mask).astype(bool)):
            return ("unvisited_nodes", f"obs.unvisited_nodes {u.astype(int).tolist()} vs ~visited_mask {(~np.asarray(s.visited_mask).astype(bool)).astype(int).tolist()}")
        if np.asarray(obs.position).shape != () or int(obs.position) != int(s.position):
            return ("position", f"obs.position {np.asarray(obs.position).tolist()} vs state.position {int(s.position)}")
        if not np.array_equal(np.asarray(obs.trajectory), np.asarray(s.trajectory)):
            return ("trajectory", f"obs.trajectory {np.asarray(obs.trajectory).tolist()} vs state {np.asarray(s.trajectory).tolist()}")
        if not np.isclose(float(obs.capacity), float(s.capacity) / cap, rtol=1e-5, atol=1e-6):
            return ("capacity", f"obs.capacity {float(obs.capacity)} vs capacity / max_capacity {float(s.capacity) / cap}")
        # possible actions, from the state's own fields (visited_mask here: the observation must be a view of this state)
        vm = np.asarray(s.visited_mask).astype(bool)
        can = ~vm & (np.asarray(s.demands) <= int(s.capacity))
        can[DEPOT] = int(s.position) != DEPOT
        m = np.asarray(obs.action_mask)
        if m.shape != can.shape or not np.array_equal(m.astype(bool), can):
            return ("action_mask", f"obs.action_mask {m.astype(int).tolist()} vs possible actions {can.astype(int).tolist()}")
        return None

    # ---- policies ------------------------------------------------------------------------------
    def policy_survive(self, s, env, rng, legal):
        """Depot after every customer: the longest possible episode (2*num_nodes steps)."""
        if legal is None or not legal.any():
            return None
        if legal[DEPOT]:
            return DEPOT
        idx = np.flatnonzero(legal)
        return int(idx[int(rng.integers(0, len(idx)))])

    def policy_complete(self, s, env, rng, legal):
        """Nearest customer that still fits, the depot only when nothing fits."""
        if legal is None or not legal.any():
            return None
        idx = [int(i) for i in np.flatnonzero(legal) if i != DEPOT]
        if not idx:
            return DEPOT
        xy = np.asarray(s.coordinates)
        return int(min(idx, key=lambda c: _dist(xy, int(s.position), c)))

    def policy_collide(self, s, env, rng, legal):
        """Fill the vehicle greedily with the largest demand that fits (tight capacity edges)."""
        if legal is None or not legal.any():
            return None
        idx = [int(i) for i in np.flatnonzero(legal) if i != DEPOT]
        if not idx:
            return DEPOT
        dem = np.asarray(s.demands)
        return int(max(idx, key=lambda c: (int(dem[c]), -c)))
