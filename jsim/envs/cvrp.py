from jsim.envs.base import Adapter
from jsim.envs._mk import cfg


class A(Adapter):
    name = "CVRP"
    mask_mode = "flat"
    terminate_on_invalid = True

    def configs(self):
        return [cfg("n20", True, n=20, cap=30, dem=10, rew="dense"), cfg("n5sparse", True, n=5, cap=6, dem=5, rew="sparse"),
                cfg("n10c10d10", n=10, cap=10, dem=10, rew="dense"), cfg("n8c40d3sparse", n=8, cap=40, dem=3, rew="sparse")]

    def build(self, c):
        from jumanji.environments import CVRP
        from jumanji.environments.routing.cvrp import generator as G
        from jumanji.environments.routing.cvrp import reward as R
        rf = R.DenseReward() if c["rew"] == "dense" else R.SparseReward()
        return CVRP(generator=G.UniformGenerator(num_nodes=c["n"], max_capacity=c["cap"], max_demand=c["dem"]), reward_fn=rf)

    def horizon(self, env, c):
        return 2 * c["n"]
