from jsim.envs.base import Adapter
from jsim.envs._mk import cfg, cross_tl


class A(Adapter):
    name = "LevelBasedForaging"
    mask_mode = "per_agent"
    noop = 0

    def configs(self):
        base = [
            cfg("g8a2f2", True, g=8, a=2, f=2, fov=8, coop=True, grid=False, norm=True, pen=0.0, tl=None),
            cfg("g6a3f2fov2grid", True, g=6, a=3, f=2, fov=2, coop=False, grid=True, norm=False, pen=0.5, tl=None),
            cfg("g6a1f1fov1", g=6, a=1, f=1, fov=1, coop=False, grid=False, norm=True, pen=0.0, tl=None),
            cfg("g8a3f2fov2", g=8, a=3, f=2, fov=2, coop=True, grid=False, norm=False, pen=0.5, tl=None),
            cfg("g8a2f1fov1grid", g=8, a=2, f=1, fov=1, coop=False, grid=True, norm=True, pen=0.0, tl=None),
        ]
        return cross_tl(base, [1, 2, 3, 7])

    def build(self, c):
        from jumanji.environments import LevelBasedForaging
        from jumanji.environments.routing.lbf.generator import RandomGenerator
        g = RandomGenerator(grid_size=c["g"], num_agents=c["a"], num_food=c["f"], fov=c["fov"], force_coop=c["coop"])
        kw = {} if c.get("tl") is None else {"time_limit": c["tl"]}
        return LevelBasedForaging(generator=g, grid_observation=c["grid"], normalize_reward=c["norm"], penalty=c["pen"], **kw)

    def time_limit(self, env, c):
        return 100 if c.get("tl") is None else c["tl"]
