"""Level-Based Foraging: rules written from docs/environments/lbf.md, the class docstring, the observer docstrings
and properties C04/C05/C08/C09/C12 (plus the original lb-foraging game the docs refer to).

Square grid with agents (position, level) and food items (position, level, eaten). Per-agent actions
0 no-op, 1 up, 2 down, 3 left, 4 right (one cell; up = row - 1, left = col - 1), 5 load. A move is allowed iff
the target cell is inside the grid and holds neither another agent nor an uneaten food. Agents move
simultaneously; when several agents try to enter the same cell all of them stay. Load is allowed iff an
uneaten food is 4-adjacent. A food is collected when the levels of the adjacent agents that load in this step
add up to at least its level; each of them is rewarded agent_level * food_level (divided, when the reward is
normalised, by the sum of the loaders' levels times the total food level, so the rewards of a fully collected
board add up to one). The episode terminates when all food is eaten and is truncated (discount 1) at the
time limit.
"""
from __future__ import annotations

from typing import Any, Dict, List, Tuple

import numpy as np

from jsim.envs._mk import cfg, cross_tl
from jsim.envs.base import Adapter, bfs_path

MOVE = {1: (-1, 0), 2: (1, 0), 3: (0, -1), 4: (0, 1)}  # up, down, left, right
LOAD = 5
NBR = [(-1, 0), (1, 0), (0, -1), (0, 1)]


def _act(frm: Tuple[int, int], to: Tuple[int, int]) -> int:
    d = (to[0] - frm[0], to[1] - frm[1])
    for a, dd in MOVE.items():
        if dd == d:
            return a
    return 0


class W:
    """Raw arrays of a state."""

    def __init__(self, s: Any):
        self.apos = np.asarray(s.agents.position).astype(np.int64).reshape(-1, 2)
        self.alev = np.asarray(s.agents.level).astype(np.int64).reshape(-1)
        self.fpos = np.asarray(s.food_items.position).astype(np.int64).reshape(-1, 2)
        self.flev = np.asarray(s.food_items.level).astype(np.int64).reshape(-1)
        self.eaten = np.asarray(s.food_items.eaten).astype(bool).reshape(-1)
        self.n = len(self.apos)
        self.f = len(self.fpos)

    def agent_cells(self) -> Dict[Tuple[int, int], int]:
        return {(int(p[0]), int(p[1])): i for i, p in enumerate(self.apos)}

    def food_cells(self) -> Dict[Tuple[int, int], int]:
        return {(int(p[0]), int(p[1])): k for k, p in enumerate(self.fpos) if not self.eaten[k]}

    def adjacent(self, i: int, k: int) -> bool:
        return int(abs(self.apos[i] - self.fpos[k]).sum()) == 1


class A(Adapter):
    name = "LevelBasedForaging"
    run_scale = 1
    mask_mode = "per_agent"
    noop = 0
    has_reaction = True
    has_invalid_effect = True
    has_physical = True
    has_objective = True
    sum_agents = True
    has_model = True
    has_observer = True

    def configs(self):
        base = [
            cfg("g8a2f2", True, g=8, a=2, f=2, fov=8, coop=True, grid=False, norm=True, pen=0.0, tl=None),
            cfg("g6a3f2fov2grid", True, g=6, a=3, f=2, fov=2, coop=False, grid=True, norm=False, pen=0.5, tl=None),
            cfg("g6a1f1fov1", True, g=6, a=1, f=1, fov=1, coop=False, grid=False, norm=True, pen=0.0, tl=None),
            cfg("g8a3f2fov2", True, g=8, a=3, f=2, fov=2, coop=True, grid=False, norm=False, pen=0.0, tl=None),
            cfg("g8a2f1fov1grid", g=8, a=2, f=1, fov=1, coop=False, grid=True, norm=True, pen=0.0, tl=None),
        ]
        # a mid-range field of view (window larger than half the grid but smaller than the grid) for the vector observer
        base.append(cfg("g8a2f2fov5", True, g=8, a=2, f=2, fov=5, coop=False, grid=False, norm=True, pen=0.0, tl=None))
        return cross_tl(base, [1, 2, 3, 7])

    def build(self, c):
        from jumanji.environments import LevelBasedForaging
        from jumanji.environments.routing.lbf.generator import RandomGenerator
        g = RandomGenerator(grid_size=c["g"], num_agents=c["a"], num_food=c["f"], fov=c["fov"], force_coop=c["coop"])
        kw = {} if c.get("tl") is None else {"time_limit": c["tl"]}
        return LevelBasedForaging(generator=g, grid_observation=c["grid"], normalize_reward=c["norm"], penalty=c["pen"], **kw)

    def time_limit(self, env, c):
        return 100 if c.get("tl") is None else c["tl"]

    # ---- rules on raw arrays ---------------------------------------------------------------------------
    @staticmethod
    def _legal_w(w: W, G: int) -> np.ndarray:
        out = np.zeros((w.n, 6), bool)
        out[:, 0] = True
        agents, foods = w.agent_cells(), w.food_cells()
        for i in range(w.n):
            r, c = int(w.apos[i, 0]), int(w.apos[i, 1])
            for a, (dr, dc) in MOVE.items():
                cell = (r + dr, c + dc)
                out[i, a] = 0 <= cell[0] < G and 0 <= cell[1] < G and cell not in agents and cell not in foods
            out[i, LOAD] = any((r + dr, c + dc) in foods for dr, dc in NBR)
        return out

    @classmethod
    def _move_w(cls, w: W, G: int, action: Any) -> Tuple[np.ndarray, int]:
        """Positions after the simultaneous move: every allowed move claims its cell; a cell claimed by several agents is
        entered by none of them."""
        legal = cls._legal_w(w, G)
        claims: Dict[Tuple[int, int], List[int]] = {}
        for i in range(w.n):
            a = int(action[i])
            if a in MOVE and legal[i, a]:
                cell = (int(w.apos[i, 0]) + MOVE[a][0], int(w.apos[i, 1]) + MOVE[a][1])
                claims.setdefault(cell, []).append(i)
        pos = w.apos.copy()
        contested = 0
        for cell, ids in claims.items():
            if len(ids) == 1:
                pos[ids[0]] = cell
            else:
                contested += 1
        return pos, contested

    @staticmethod
    def _load_w(w: W, pos: np.ndarray, action: Any) -> Tuple[np.ndarray, np.ndarray]:
        """(f, n) levels of the loading agents adjacent to each uneaten food, and which foods get eaten."""
        lv = np.zeros((w.f, w.n), np.int64)
        for k in range(w.f):
            if w.eaten[k]:
                continue
            for i in range(w.n):
                if int(action[i]) == LOAD and int(abs(pos[i] - w.fpos[k]).sum()) == 1:
                    lv[k, i] = w.alev[i]
        tot = lv.sum(axis=1)
        return lv, (tot > 0) & (tot >= w.flev) & ~w.eaten

    # ---- C04 -------------------------------------------------------------------------------------------
    def legal(self, s: Any, env: Any) -> np.ndarray:
        return self._legal_w(W(s), int(env.grid_size))

    def describe(self, s, env, idx):
        w = W(s)
        return (f"agent {idx[0]} at {tuple(w.apos[idx[0]])}; agents {w.apos.tolist()}; food {w.fpos.tolist()} eaten {w.eaten.tolist()}; "
                f"grid {int(env.grid_size)}")

    def reaction_invalid(self, ps, action, agent, s, ts, env, cfg):
        a = int(action[agent])
        if a == 0:
            return None
        w0, w1 = W(ps), W(s)
        if a in MOVE:
            return bool(np.array_equal(w0.apos[agent], w1.apos[agent]))  # stayed: the move was ignored
        newly = w1.eaten & ~w0.eaten
        if any(newly[k] and w0.adjacent(agent, k) for k in range(w0.f)):
            return False  # the load was carried out
        if not newly.any() and not any((not w0.eaten[k]) and w0.adjacent(agent, k) for k in range(w0.f)):
            return True  # nothing to load and nothing happened: ignored
        return None  # a load next to a food that is too heavy looks like an ignored one

    # ---- C05 -------------------------------------------------------------------------------------------
    def invalid_effect(self, ps, action, illegal, s, ts, env, cfg):
        w0, w1 = W(ps), W(s)
        G = int(cfg["g"])
        ill = list(illegal) if isinstance(illegal, (list, tuple)) else list(range(w0.n))
        for i in ill:
            if not np.array_equal(w0.apos[i], w1.apos[i]):
                return ("invalid_move_moved_agent", f"agent {i} moved {tuple(w0.apos[i])} -> {tuple(w1.apos[i])} on illegal action {int(action[i])}")
        # what would be eaten had the offenders played no-op
        ref = [0 if j in ill else int(a) for j, a in enumerate(action)]
        pos, _ = self._move_w(w0, G, ref)
        _, eat = self._load_w(w0, pos, ref)
        extra = w1.eaten & ~w0.eaten & ~eat
        if extra.any():
            return ("invalid_action_ate_food", f"food {np.flatnonzero(extra).tolist()} eaten on behalf of illegal actions {list(action)} of agents {ill}")
        if (w0.eaten & ~w1.eaten).any():
            return ("food_uneaten", "an eaten food came back")
        tl = self.time_limit(env, cfg)
        if int(ts.step_type) == 2 and not (w1.eaten.all() or int(ps.step_count) + 1 >= tl):
            return ("invalid_action_ended_episode", f"LAST at step {int(ps.step_count) + 1} < {tl} with food left after illegal actions {list(action)}")
        if int(s.step_count) != int(ps.step_count) + 1:
            return ("invalid_move_step_count", f"step_count {int(s.step_count)} after {int(ps.step_count)}")
        return None

    # ---- C07 -------------------------------------------------------------------------------------------
    def physical(self, ps, action, s, ts, env, cfg):
        w = W(s)
        G = int(cfg["g"])
        if w.n != int(cfg["a"]) or w.f != int(cfg["f"]):
            return ("entity_count", f"{w.n} agents / {w.f} food, configured {cfg['a']} / {cfg['f']}")
        seen: Dict[Tuple[int, int], int] = {}
        foods = w.food_cells()
        for i in range(w.n):
            cell = (int(w.apos[i, 0]), int(w.apos[i, 1]))
            if not (0 <= cell[0] < G and 0 <= cell[1] < G):
                return ("agent_outside_grid", f"agent {i} at {cell} on a {G}x{G} grid")
            if cell in seen:
                return ("agents_share_cell", f"agents {seen[cell]} and {i} both at {cell}")
            seen[cell] = i
            if cell in foods:
                return ("agent_on_food", f"agent {i} stands on uneaten food {foods[cell]} at {cell}")
        if ((w.fpos < 0) | (w.fpos >= G)).any():
            return ("food_outside_grid", f"food positions {w.fpos.tolist()}")
        if ps is None:
            return None
        w0 = W(ps)
        if not np.array_equal(w0.fpos, w.fpos) or not np.array_equal(w0.flev, w.flev):
            return ("food_changed", f"food positions/levels {w0.fpos.tolist()}/{w0.flev.tolist()} -> {w.fpos.tolist()}/{w.flev.tolist()}")
        if (w0.eaten & ~w.eaten).any():
            return ("food_uneaten", f"eaten {w0.eaten.tolist()} -> {w.eaten.tolist()}")
        if not np.array_equal(w0.alev, w.alev) or not np.array_equal(np.asarray(ps.agents.id), np.asarray(s.agents.id)):
            return ("agent_identity_changed", f"agent levels {w0.alev.tolist()} -> {w.alev.tolist()}")
        return None

    # ---- C08 -------------------------------------------------------------------------------------------
    def objective(self, hist, env, cfg):
        if not cfg["norm"] or float(cfg["pen"]) != 0.0:
            return None
        if not W(hist[-1].state).eaten.all():
            return None
        return 1.0  # normalised rewards of a fully collected board add up to one

    # ---- C09 -------------------------------------------------------------------------------------------
    def model_step(self, ps, action, s, ts, env, cfg):
        w0, w1 = W(ps), W(s)
        G = int(cfg["g"])
        pos, contested = self._move_w(w0, G, action)
        if int(s.step_count) != int(ps.step_count) + 1:
            return ("step_count", f"step_count {int(s.step_count)} expected {int(ps.step_count) + 1}")
        if not np.array_equal(w1.apos, pos):
            i = int(np.argwhere((w1.apos != pos).any(axis=1))[0][0])
            return ("position", f"agent {i}: {tuple(w1.apos[i])} expected {tuple(pos[i])} (from {w0.apos.tolist()}, actions {list(action)}, "
                    f"food {w0.fpos.tolist()} eaten {w0.eaten.tolist()}, {contested} contested cells)")
        lv, eat = self._load_w(w0, pos, action)
        eaten = w0.eaten | eat
        if not np.array_equal(w1.eaten, eaten):
            return ("eaten", f"eaten {w1.eaten.tolist()} expected {eaten.tolist()} (loaders' levels per food {lv.tolist()}, food levels {w0.flev.tolist()})")
        if not np.array_equal(w1.fpos, w0.fpos) or not np.array_equal(w1.flev, w0.flev) or not np.array_equal(w1.alev, w0.alev):
            return ("constants", "food positions / levels or agent levels changed")
        want_loading = np.asarray([int(a) == LOAD for a in action])
        if not np.array_equal(np.asarray(s.agents.loading).astype(bool).reshape(-1), want_loading):
            return ("loading_flag", f"agents.loading {np.asarray(s.agents.loading).tolist()} after actions {list(action)}")
        # reward
        norm, pen = bool(cfg["norm"]), float(cfg["pen"])
        total = float(w0.flev.sum())
        base = np.zeros(w0.n)
        for k in np.flatnonzero(eat):
            share = lv[k].astype(np.float64) * float(w0.flev[k])
            base += share / (float(lv[k].sum()) * total) if norm else share
        failed = [int(k) for k in range(w0.f) if lv[k].sum() > 0 and not eat[k]]
        r = np.asarray(ts.reward, dtype=np.float64)
        if r.shape != base.shape:
            return ("reward_shape", f"{r.shape}")
        if pen == 0.0 or not failed:
            cands = [base]
        elif norm:
            cands = []  # penalty under normalisation: scale undocumented, not judged
        else:
            # the docs name a penalty for loaders that fail to collect a food but not who pays it: accepted are
            # "every agent pays once per failed food" and "the adjacent loaders of the failed food pay"
            cands = [base - pen * len(failed), base - pen * sum((lv[k] > 0).astype(np.float64) for k in failed)]
        if cands and not any(np.allclose(r, c, rtol=1e-5, atol=1e-6) for c in cands):
            return ("reward", f"reward {r.tolist()} expected {[c.tolist() for c in cands]} (loaders' levels per food {lv.tolist()}, food levels "
                    f"{w0.flev.tolist()}, eaten now {eat.tolist()}, normalise={norm}, penalty={pen})")
        # end of episode
        sc = int(ps.step_count) + 1
        tl = self.time_limit(env, cfg)
        st = int(ts.step_type)
        d = np.asarray(ts.discount, dtype=np.float64)
        if eaten.all():
            if st != 2 or not np.allclose(d, 0.0):
                return ("termination", f"all food eaten but step_type {st} discount {d.tolist()}")
        elif sc >= tl:
            if st != 2 or not np.allclose(d, 1.0):
                return ("truncation", f"time limit {tl} reached at step {sc} with food left but step_type {st} discount {d.tolist()}")
        elif st != 1 or not np.allclose(d, 1.0):
            return ("early_end", f"step {sc}/{tl}, food left, but step_type {st} discount {d.tolist()}")
        return None

    # ---- C11 -------------------------------------------------------------------------------------------
    def end_cause(self, ps, action, s, ts, env, cfg):
        return "all_food_eaten" if W(s).eaten.all() else None

    # ---- reach probes ------------------------------------------------------------------------------------
    def events(self, ps, action, s, ts, env, cfg):
        G = int(cfg["g"])
        if ps is None:
            w = W(s)
            coop = bool((w.flev > w.alev.max(initial=0)).any())
            adj = any(w.adjacent(i, k) for i in range(w.n) for k in range(w.f))
            return ((["reset_multi_agent"] if w.n > 1 else ["reset_single_agent"]) + (["reset_food_needs_cooperation"] if coop else [])
                    + (["reset_agent_adjacent_to_food"] if adj else []))
        w0 = W(ps)
        legal = self._legal_w(w0, G)
        agents, foods = w0.agent_cells(), w0.food_cells()
        ev = []
        claims: Dict[Tuple[int, int], int] = {}
        for i in range(w0.n):
            a = int(action[i])
            if a in MOVE:
                cell = (int(w0.apos[i, 0]) + MOVE[a][0], int(w0.apos[i, 1]) + MOVE[a][1])
                if legal[i, a]:
                    claims[cell] = claims.get(cell, 0) + 1
                else:
                    ev.append("move_blocked_by_agent" if cell in agents else "move_blocked_by_food" if cell in foods else "move_blocked_by_border")
            elif a == LOAD and not legal[i, LOAD]:
                ev.append("load_without_adjacent_food")
        ev += ["contention_2_agents_one_cell" if c == 2 else "contention_3_or_more_agents_one_cell" for c in claims.values() if c >= 2]
        pos, _ = self._move_w(w0, G, action)
        lv, eat = self._load_w(w0, pos, action)
        for k in range(w0.f):
            loaders = int((lv[k] > 0).sum())
            if eat[k]:
                ev.append("food_loaded_by_1_agent" if loaders == 1 else "food_loaded_by_2_or_more_agents")
            elif loaders:
                ev.append("load_failed_insufficient_level" + ("_with_penalty" if float(cfg.get("pen", 0.0)) > 0 else ""))
        if int(eat.sum()) >= 2:
            ev.append("two_foods_loaded_in_one_step")
        if ((lv > 0).sum(axis=0) >= 2).any():
            ev.append("loader_adjacent_to_two_foods")
        if sum(1 for a in action if int(a) != 0) >= 2:
            ev.append("agents_acting_simultaneously_ge2")
        if W(s).eaten.all():
            ev.append("end_all_food_eaten")
        return ev

    # ---- C12 -------------------------------------------------------------------------------------------
    def observe(self, s, obs, env, cfg):
        w = W(s)
        G, fov = int(cfg["g"]), int(cfg["fov"])
        view = np.asarray(obs.agents_view)
        if cfg["grid"]:
            # three layers of a (2 fov + 1)^2 window centred on the agent: agent levels, levels of uneaten food, accessibility
            # (1 = inside the grid and holding neither an agent nor an uneaten food)
            side = 2 * fov + 1
            if view.shape != (w.n, 3, side, side):
                return ("agents_view_shape", f"{view.shape} expected {(w.n, 3, side, side)}")
            agents, foods = w.agent_cells(), w.food_cells()
            want = np.zeros((w.n, 3, side, side), np.int64)
            for i in range(w.n):
                for dr in range(-fov, fov + 1):
                    for dc in range(-fov, fov + 1):
                        cell = (int(w.apos[i, 0]) + dr, int(w.apos[i, 1]) + dc)
                        if not (0 <= cell[0] < G and 0 <= cell[1] < G):
                            continue
                        if cell in agents:
                            want[i, 0, dr + fov, dc + fov] = w.alev[agents[cell]]
                        if cell in foods:
                            want[i, 1, dr + fov, dc + fov] = w.flev[foods[cell]]
                        want[i, 2, dr + fov, dc + fov] = int(cell not in agents and cell not in foods)
            if not np.array_equal(view, want):
                ix = np.argwhere(view != want)[0]
                return ("grid_view", f"agents_view{ix.tolist()} = {int(view[tuple(ix)])} expected {int(want[tuple(ix)])} (agent at "
                        f"{tuple(w.apos[ix[0]])}, layer {['agents', 'food', 'access'][ix[1]]}, fov {fov}; agents {w.apos.tolist()} food "
                        f"{w.fpos.tolist()} eaten {w.eaten.tolist()})")
        else:
            # per agent: num_food food triples, own triple, the other agents' triples in id order; a triple is (row, col, level) with
            # coordinates counted from the top-left corner of the agent's window clipped to the grid; (-1, -1, 0) when not visible
            if view.shape != (w.n, 3 * (w.f + w.n)):
                return ("agents_view_shape", f"{view.shape} expected {(w.n, 3 * (w.f + w.n))}")
            want = np.zeros((w.n, 3 * (w.f + w.n)), np.int64)
            for i in range(w.n):
                me = w.apos[i]
                origin = np.asarray([max(0, int(me[0]) - fov), max(0, int(me[1]) - fov)])

                def triple(p: np.ndarray, level: int, exists: bool = True) -> List[int]:
                    if exists and int(abs(p - me).max()) <= fov:
                        return [int(p[0] - origin[0]), int(p[1] - origin[1]), int(level)]
                    return [-1, -1, 0]

                row: List[int] = []
                for k in range(w.f):
                    row += triple(w.fpos[k], w.flev[k], not w.eaten[k])
                row += triple(me, w.alev[i])
                for j in range(w.n):
                    if j != i:
                        row += triple(w.apos[j], w.alev[j])
                want[i] = row
            if not np.array_equal(view, want):
                ix = np.argwhere(view != want)[0]
                return ("vector_view", f"agents_view{ix.tolist()} = {int(view[tuple(ix)])} expected {int(want[tuple(ix)])} (agent at "
                        f"{tuple(w.apos[ix[0]])}, fov {fov}; agents {w.apos.tolist()} levels {w.alev.tolist()} food {w.fpos.tolist()} levels "
                        f"{w.flev.tolist()} eaten {w.eaten.tolist()})\n{view[ix[0]].tolist()}\nvs\n{want[ix[0]].tolist()}")
        if int(obs.step_count) != int(s.step_count):
            return ("step_count", f"obs {int(obs.step_count)} vs state {int(s.step_count)}")
        m = np.asarray(obs.action_mask)
        if m.shape != (w.n, 6) or m.dtype != bool:
            return ("action_mask_shape", f"action_mask {m.shape} {m.dtype}")
        return None

    # ---- policies --------------------------------------------------------------------------------------
    def policy_survive(self, s, env, rng, legal):
        return [0] * W(s).n  # nothing is ever collected: only the clock ends the episode

    def policy_complete(self, s, env, rng, legal):
        """All agents walk to the lowest-index uneaten food and load together once their levels suffice."""
        w = W(s)
        G = int(env.grid_size)
        left = np.flatnonzero(~w.eaten)
        if len(left) == 0:
            return None
        k = int(left[0])
        fr, fc = int(w.fpos[k, 0]), int(w.fpos[k, 1])
        ring = [(fr + dr, fc + dc) for dr, dc in NBR if 0 <= fr + dr < G and 0 <= fc + dc < G]
        free = np.ones((G, G), bool)
        for c in w.agent_cells():
            free[c] = False
        for c in w.food_cells():
            free[c] = False
        adj = [i for i in range(w.n) if w.adjacent(i, k)]
        act = [0] * w.n
        if sum(int(w.alev[i]) for i in adj) >= int(w.flev[k]):
            # deadline-aware: when this load would collect the *last* food and there is slack before the time limit, wait in
            # half of the cases, so that the completing load can fall on the very step of the limit (two endings on one step)
            tl = int(getattr(env, "time_limit", 0) or 0)
            # (which episodes wait is a function of the episode's key - constant during an episode - so a waiting episode keeps
            # waiting until the last step before the limit)
            if len(left) == 1 and tl and int(s.step_count) + 1 < tl and int(np.asarray(s.key).reshape(-1)[-1]) % 2 == 0:
                return act  # everybody waits (no-op)
            for i in adj:
                act[i] = LOAD
            return act
        taken = set()
        for i in range(w.n):
            if i in adj:
                continue
            goals = [c for c in ring if free[c] and c not in taken]
            path = bfs_path(free, (int(w.apos[i, 0]), int(w.apos[i, 1])), lambda c, goals=goals: c in goals) if goals else None
            if path is None or len(path) < 2 or path[1] in taken:
                continue
            taken.add(path[1])
            taken.add(path[-1])
            act[i] = _act(path[0], path[1])
        if not any(act):
            return None
        return act

    def policy_collide(self, s, env, rng, legal):
        """Send as many agents as possible into one free cell; otherwise walk the closest pair towards each other."""
        if rng.random() < 0.25:
            return None  # a contested cell is entered by nobody, so pure collision-seeking would repeat one position for ever
        w = W(s)
        G = int(env.grid_size)
        lg = self._legal_w(w, G)
        wants: Dict[Tuple[int, int], List[Tuple[int, int]]] = {}
        for i in range(w.n):
            for a in MOVE:
                if lg[i, a]:
                    wants.setdefault((int(w.apos[i, 0]) + MOVE[a][0], int(w.apos[i, 1]) + MOVE[a][1]), []).append((i, a))
        shared = sorted((c for c in wants if len(wants[c]) > 1), key=lambda c: (-len(wants[c]), c))
        act = [0] * w.n
        if shared:
            top = [c for c in shared if len(wants[c]) == len(wants[shared[0]])]
            for i, a in wants[top[int(rng.integers(0, len(top)))]]:
                act[i] = a
            for i in range(w.n):
                if act[i] == 0 and rng.random() < 0.5:
                    idx = np.flatnonzero(lg[i])
                    act[i] = int(idx[int(rng.integers(0, len(idx)))])
            return act
        if w.n < 2:
            return None
        best = None
        for i in range(w.n):
            for j in range(i + 1, w.n):
                d = int(abs(w.apos[i] - w.apos[j]).sum())
                if best is None or d < best[0]:
                    best = (d, i, j)
        _, i, j = best
        free = np.ones((G, G), bool)
        for c in w.agent_cells():
            free[c] = False
        for c in w.food_cells():
            free[c] = False
        goal = (int(w.apos[j, 0]), int(w.apos[j, 1]))
        free[goal] = True
        path = bfs_path(free, (int(w.apos[i, 0]), int(w.apos[i, 1])), lambda c: c == goal)
        if path is None:
            return None
        edges = len(path) - 1
        if edges < 3:  # adjacent agents: step aside to get an even distance
            idx = np.flatnonzero(lg[i, 1:5]) + 1
            if len(idx) == 0:
                return None
            act[i] = int(idx[int(rng.integers(0, len(idx)))])
            return act
        act[i] = _act(path[0], path[1])
        if edges % 2 == 0 and edges >= 4:
            act[j] = _act(path[-1], path[-2])
        return act
