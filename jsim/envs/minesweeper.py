from jsim.envs.base import Adapter
from jsim.envs._mk import cfg


class A(Adapter):
    name = "Minesweeper"
    mask_mode = "joint"
    terminate_on_invalid = True

    def configs(self):
        return [cfg("r10c10m10", True, r=10, c=10, m=10), cfg("r3c5m2", True, r=3, c=5, m=2), cfg("r6c4m5", r=6, c=4, m=5), cfg("r2c2m1", r=2, c=2, m=1)]

    def build(self, c):
        from jumanji.environments import Minesweeper
        from jumanji.environments.logic.minesweeper.generator import UniformSamplingGenerator
        return Minesweeper(generator=UniformSamplingGenerator(num_rows=c["r"], num_cols=c["c"], num_mines=c["m"]))

    def horizon(self, env, c):
        return c["r"] * c["c"] - c["m"]
