"""Minesweeper: rules written from docs/environments/minesweeper.md and the class docstring.

Board of num_rows x num_cols; -1 = not yet explored, otherwise the number of mines in the 8 adjacent
squares. num_mines mines lie on distinct squares (state.flat_mine_locations, row-major flat indices).
An action [row, col] explores one square and reveals only that square. Exploring an already explored
square is the invalid action. Reward (default): 1 for exploring a new square without a mine, 0 for a
mine and 0 for an invalid action. The episode ends when a mine is explored, on an invalid action, or
when the board is solved (every square without a mine explored).
"""
from __future__ import annotations

from typing import Any, Optional, Tuple

import numpy as np

from jsim.envs._mk import cfg
from jsim.envs.base import Adapter


def mine_grid(s: Any) -> np.ndarray:
    b = np.asarray(s.board)
    g = np.zeros(b.size, dtype=bool)
    loc = np.asarray(s.flat_mine_locations).reshape(-1)
    g[loc[(loc >= 0) & (loc < b.size)]] = True
    return g.reshape(b.shape)


def neighbours(mines: np.ndarray, r: int, c: int) -> int:
    R, C = mines.shape
    n = 0
    for dr in (-1, 0, 1):
        for dc in (-1, 0, 1):
            if (dr or dc) and 0 <= r + dr < R and 0 <= c + dc < C and mines[r + dr, c + dc]:
                n += 1
    return n


def is_solved(board: np.ndarray, mines: np.ndarray) -> bool:
    return bool((np.asarray(board)[~mines] != -1).all())


class A(Adapter):
    name = "Minesweeper"
    mask_mode = "joint"
    terminate_on_invalid = True
    has_reaction = True
    has_invalid_effect = True
    has_physical = True
    has_objective = True
    objective_without_end = True  # +1 per safe square at every prefix of an episode
    has_model = True
    has_observer = True

    def configs(self):
        return [cfg("r10c10m10", True, r=10, c=10, m=10), cfg("r3c5m2", True, r=3, c=5, m=2), cfg("r6c4m5", True, r=6, c=4, m=5), cfg("r2c2m1", r=2, c=2, m=1),
                # user-chosen reward values, all three different (the defaults give the same 0 to a mine and to an invalid action)
                cfg("r4c5m4rew", True, r=4, c=5, m=4, rew=[0.5, -1.0, -0.25], props=["C01", "C03", "C05", "C09"])]

    def build(self, c):
        from jumanji.environments import Minesweeper
        from jumanji.environments.logic.minesweeper.generator import UniformSamplingGenerator
        g = UniformSamplingGenerator(num_rows=c["r"], num_cols=c["c"], num_mines=c["m"])
        if c.get("rew"):
            from jumanji.environments.logic.minesweeper.reward import DefaultRewardFn
            re_, rm, ri = c["rew"]
            return Minesweeper(generator=g, reward_function=DefaultRewardFn(revealed_empty_square_reward=re_, revealed_mine_reward=rm,
                                                                            invalid_action_reward=ri))
        return Minesweeper(generator=g)

    def horizon(self, env, c):
        return c["r"] * c["c"] - c["m"]

    # ---- C04 -------------------------------------------------------------------------------------
    def legal(self, s: Any, env: Any) -> np.ndarray:
        return np.asarray(s.board) == -1  # "valid (not yet explored squares)"; a hidden mine is a legal, fatal, move

    def describe(self, s, env, idx):
        r, c = int(idx[0]), int(idx[1])
        return f"square {(r, c)} shows {int(np.asarray(s.board)[r, c])}, mine={bool(mine_grid(s)[r, c])}"

    def reaction_invalid(self, ps, action, agent, s, ts, env, cfg):
        r, c = int(action[0]), int(action[1])
        last = int(ts.step_type) == 2
        rew = float(ts.reward)
        if np.asarray(ps.board)[r, c] == -1 and mine_grid(ps)[r, c]:
            return None  # exploring a mine and an invalid action both give LAST with reward 0: cannot be told apart
        # otherwise a move accepted as valid earns 1; the invalid signature is LAST with reward 0
        return bool(last and rew == 0.0)

    # ---- C05 -------------------------------------------------------------------------------------
    def invalid_effect(self, ps, action, illegal, s, ts, env, cfg):
        r, c = int(action[0]), int(action[1])
        if int(ts.step_type) != 2:
            return ("invalid_move_not_terminal", f"step_type {int(ts.step_type)} after exploring the already explored square {(r, c)}")
        ri = float((cfg.get("rew") or [1.0, 0.0, 0.0])[2])
        if not np.isclose(float(ts.reward), ri, rtol=1e-5, atol=1e-6):
            return ("invalid_move_reward", f"reward {float(ts.reward)} != {ri} (the configured invalid-action reward) for the already explored square {(r, c)}")
        if float(ts.discount) != 0.0:
            return ("invalid_move_discount", f"discount {float(ts.discount)} != 0 on the terminal step")
        return None

    # ---- C07 -------------------------------------------------------------------------------------
    def physical(self, ps, action, s, ts, env, cfg):
        b = np.asarray(s.board)
        R, C, M = cfg["r"], cfg["c"], cfg["m"]
        if b.shape != (R, C):
            return ("board_shape", f"board shape {b.shape} for a {R}x{C} game")
        loc = np.asarray(s.flat_mine_locations).reshape(-1)
        if len(loc) != M:
            return ("mine_count", f"{len(loc)} mine locations, num_mines={M}")
        if ((loc < 0) | (loc >= R * C)).any():
            return ("mine_outside_board", f"mine locations {loc.tolist()} outside 0..{R * C - 1}")
        if len(np.unique(loc)) != M:
            return ("mines_not_distinct", f"mine locations {loc.tolist()} are not {M} distinct squares")
        if ps is not None and not np.array_equal(loc, np.asarray(ps.flat_mine_locations).reshape(-1)):
            return ("mines_moved", f"mine locations {np.asarray(ps.flat_mine_locations).tolist()} -> {loc.tolist()}")
        mines = mine_grid(s)
        for r, c in np.argwhere(b != -1):
            r, c = int(r), int(c)
            want = neighbours(mines, r, c)
            if int(b[r, c]) != want:
                return ("revealed_count_wrong", f"square {(r, c)} shows {int(b[r, c])} but has {want} adjacent mines (mines at {sorted(loc.tolist())})")
            if mines[r, c]:
                return ("explored_mine_but_episode_continues", f"square {(r, c)} holds a mine and is explored in a state from which the episode continues")
        if ps is None and (b != -1).any():
            return ("initial_board_not_hidden", f"{int((b != -1).sum())} squares are explored at reset")
        return None

    # ---- C08 -------------------------------------------------------------------------------------
    def objective(self, hist, env, cfg):
        s = hist[-1].state
        b = np.asarray(s.board)
        return float(((b != -1) & ~mine_grid(s)).sum())  # safe squares revealed (the step that hits a mine earns 0)

    # ---- C09 -------------------------------------------------------------------------------------
    def model_step(self, ps, action, s, ts, env, cfg):
        r, c = int(action[0]), int(action[1])
        pb, nb = np.asarray(ps.board), np.asarray(s.board)
        mines = mine_grid(ps)
        valid = pb[r, c] == -1
        re_, rm, ri = (float(x) for x in (cfg.get("rew") or [1.0, 0.0, 0.0]))
        if not valid:
            want_r, done, why = ri, True, "already explored square"
        elif mines[r, c]:
            want_r, done, why = rm, True, "mine"
        else:
            want_b = pb.copy()
            want_b[r, c] = neighbours(mines, r, c)
            done = is_solved(want_b, mines)
            want_r, why = re_, "safe square"
            if not np.array_equal(nb, want_b):
                d = np.argwhere(nb != want_b)[0].tolist()
                return ("board", f"exploring the safe square {(r, c)}: cell {d} is {int(nb[tuple(d)])}, the rules give {int(want_b[tuple(d)])}")
        if valid and mines[r, c]:
            # only the explored square may change ("reveals only the contents of that square"); what a mine square shows
            # afterwards is not documented
            other = np.ones_like(pb, dtype=bool)
            other[r, c] = False
            if not np.array_equal(nb[other], pb[other]):
                return ("board_after_mine", f"exploring the mine at {(r, c)} changed other squares")
        if valid:
            if not np.array_equal(np.asarray(s.flat_mine_locations), np.asarray(ps.flat_mine_locations)):
                return ("mines_moved", "flat_mine_locations changed across a step")
            if int(s.step_count) != int(ps.step_count) + 1:
                return ("step_count", f"step_count {int(s.step_count)} expected {int(ps.step_count) + 1}")
        # after an invalid action only reward and termination are specified
        if not np.isclose(float(ts.reward), want_r, rtol=1e-5, atol=1e-6):
            return ("reward", f"reward {float(ts.reward)} expected {want_r} for exploring {(r, c)} ({why})")
        if (int(ts.step_type) == 2) != done:
            return ("termination", f"step_type {int(ts.step_type)} but the rules say done={done} after exploring {(r, c)} ({why})")
        want_disc = 0.0 if done else 1.0
        if float(ts.discount) != want_disc:
            return ("discount", f"discount {float(ts.discount)} expected {want_disc}")
        return None

    # ---- C11 (structural horizon only; kept for completeness) ------------------------------------
    def end_cause(self, ps, action, s, ts, env, cfg):
        r, c = int(action[0]), int(action[1])
        if np.asarray(ps.board)[r, c] != -1:
            return "invalid_action"
        if mine_grid(ps)[r, c]:
            return "mine_explored"
        if is_solved(np.asarray(s.board), mine_grid(s)):
            return "solved"
        return None

    # ---- reach probes ---------------------------------------------------------------------------
    def events(self, ps, action, s, ts, env, cfg):
        if ps is None:
            mines = mine_grid(s)
            R, C = mines.shape
            ev = ["reset_nonsquare"] if R != C else []
            if mines[0, 0] or mines[0, C - 1] or mines[R - 1, 0] or mines[R - 1, C - 1]:
                ev.append("reset_mine_in_corner")
            if not any(neighbours(mines, int(r), int(c)) == 0 for r, c in np.argwhere(~mines)):
                ev.append("reset_no_zero_count_square")
            return ev
        r, c = int(action[0]), int(action[1])
        pb = np.asarray(ps.board)
        mines = mine_grid(ps)
        first = bool((pb == -1).all())
        if pb[r, c] != -1:
            return ["ended_invalid_already_explored"]
        if mines[r, c]:
            return ["ended_mine_explored"] + (["mine_on_first_move"] if first else [])
        n = neighbours(mines, r, c)
        ev = ["safe_square_revealed"]
        if n == 0:
            ev.append("revealed_zero_count")
        if n >= 3:
            ev.append("revealed_count_ge_3")
        if n >= 1 and n == int(mines.sum()):
            ev.append("revealed_square_touching_every_mine")
        if r in (0, pb.shape[0] - 1) and c in (0, pb.shape[1] - 1):
            ev.append("revealed_corner")
        left = int(((np.asarray(s.board) == -1) & ~mines).sum())  # safe squares still hidden
        if left == 0:
            ev.append("ended_solved_last_safe_square")
            if first:
                ev.append("solved_by_first_move")
        elif left == 1:
            ev.append("one_safe_square_left")
        return ev

    # ---- C12 -------------------------------------------------------------------------------------
    def observe(self, s, obs, env, cfg):
        b, ob = np.asarray(s.board), np.asarray(obs.board)
        if b.shape != ob.shape or not np.array_equal(b, ob):
            return ("board", "obs.board != state.board")
        if not np.array_equal(np.asarray(obs.action_mask).astype(bool), b == -1):
            d = np.argwhere(np.asarray(obs.action_mask).astype(bool) != (b == -1))[0].tolist()
            return ("action_mask", f"action_mask at {d} is {bool(np.asarray(obs.action_mask)[tuple(d)])} but the board shows {int(b[tuple(d)])}")
        n = len(np.asarray(s.flat_mine_locations).reshape(-1))
        if int(obs.num_mines) != cfg["m"] or int(obs.num_mines) != n:
            return ("num_mines", f"obs.num_mines {int(obs.num_mines)} vs configured {cfg['m']} / {n} mine locations in the state")
        if int(obs.step_count) != int(s.step_count):
            return ("step_count", f"obs {int(obs.step_count)} vs state {int(s.step_count)}")
        return None

    # ---- policies --------------------------------------------------------------------------------
    @staticmethod
    def _safe(s: Any) -> np.ndarray:
        return np.argwhere((np.asarray(s.board) == -1) & ~mine_grid(s))

    def policy_complete(self, s, env, rng, legal):
        """Reveal only safe squares (hidden mine locations), in random order: reaches 'solved'."""
        safe = self._safe(s)
        if len(safe) == 0:
            return None
        r, c = safe[int(rng.integers(0, len(safe)))]
        return [int(r), int(c)]

    def policy_survive(self, s, env, rng, legal):
        """Longest possible episode = every safe square, one per step (row-major order); it ends exactly at the horizon."""
        safe = self._safe(s)
        if len(safe) == 0:
            return None
        return [int(safe[0][0]), int(safe[0][1])]
