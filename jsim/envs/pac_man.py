from jsim.envs.base import Adapter
from jsim.envs._mk import cfg, cross_tl


class A(Adapter):
    name = "PacMan"
    mask_mode = "flat"

    def configs(self):
        base = [cfg("default", True, tl=None)]
        return cross_tl(base, [None, 1, 2, 3, 7])

    def build(self, c):
        from jumanji.environments import PacMan
        return PacMan(time_limit=c.get("tl"))

    def time_limit(self, env, c):
        return 1000 if c.get("tl") is None else c["tl"]
