"""PacMan: rules written from docs/environments/pac_man.md and the class docstring.

Fixed 31 x 28 maze. State conventions (learned from types/generator, not from the step logic): `grid[row, col]`
is 1 on corridor cells and 0 on walls; `player_locations` is `Position(x=row, y=col)`; `ghost_locations`,
`pellet_locations`, `power_up_locations` hold `(col, row)` pairs and an eaten pellet / power-up row is
zeroed to (0, 0) (a wall cell). Five actions; the *implemented* displacement per index is 0: row-1, 1: col-1,
2: row+1, 3: col+1, 4: none (the docstring calls 1 "right" and 3 "left": naming is not judged). Leaving the
maze through the open ends of the tunnel row re-enters on the other side. A move into a wall is ignored (the
player stays); the no-op is masked by design. The game ends when all pellets are collected, when the player
touches a ghost outside scatter mode, or at the time limit.
"""
from __future__ import annotations

from collections import deque
from typing import Any, List, Optional, Tuple

import numpy as np

from jsim.envs._mk import cfg, cross_tl
from jsim.envs.base import Adapter

DELTA = [(-1, 0), (0, -1), (1, 0), (0, 1), (0, 0)]  # (d_row, d_col) per action index


class A(Adapter):
    name = "PacMan"
    run_scale = 5  # episodes are short (ghosts), deep states need many runs
    mask_mode = "flat"
    has_reaction = True
    has_invalid_effect = True
    has_physical = True
    has_observer = True

    def configs(self):
        base = [cfg("default", True, tl=None)]
        return cross_tl(base, [None, 1, 2, 3, 7])

    def build(self, c):
        from jumanji.environments import PacMan
        return PacMan(time_limit=c.get("tl"))

    def time_limit(self, env, c):
        return 1000 if c.get("tl") is None else c["tl"]

    # ---- helpers ---------------------------------------------------------------------------------
    @staticmethod
    def _player(s: Any) -> Tuple[int, int]:
        """(row, col) of the player."""
        return int(s.player_locations.x), int(s.player_locations.y)

    @staticmethod
    def _target(grid: np.ndarray, rc: Tuple[int, int], a: int) -> Tuple[int, int]:
        R, C = grid.shape
        return (rc[0] + DELTA[a][0]) % R, (rc[1] + DELTA[a][1]) % C

    # ---- C04 -------------------------------------------------------------------------------------
    def legal(self, s: Any, env: Any) -> np.ndarray:
        g = np.asarray(s.grid)
        rc = self._player(s)
        out = np.zeros(5, bool)
        for a in range(4):
            r, c = self._target(g, rc, a)
            out[a] = g[r, c] == 1
        return out  # out[4] (no-op) is never legal: masked by design

    def describe(self, s, env, idx):
        g = np.asarray(s.grid)
        rc = self._player(s)
        a = int(idx[0])
        t = self._target(g, rc, a)
        return f"player (row, col)={rc}, action {a} targets {t} with grid value {int(g[t])}"

    def reaction_invalid(self, ps, action, agent, s, ts, env, cfg):
        # ignore-invalid env: the move was treated as invalid iff the player did not move (a legal move always
        # changes the cell; the no-op never does).
        return self._player(s) == self._player(ps)

    # ---- C05 -------------------------------------------------------------------------------------
    def _touches_ghost(self, ps: Any, s: Any) -> bool:
        """Player and a ghost share a cell, or pass through each other, during this transition. The docs only say
        "touches"; every pairing of old/new cells is accepted as a touch (old_ghost_locations included)."""
        pl = {self._player(ps)[::-1], self._player(s)[::-1]}  # as (col, row)
        gh = set()
        for arr in (ps.ghost_locations, s.ghost_locations, ps.old_ghost_locations):
            for row in np.asarray(arr):
                gh.add((int(row[0]), int(row[1])))
        return bool(pl & gh)

    @staticmethod
    def _live(arr: Any) -> np.ndarray:
        return np.asarray(arr).any(axis=1)

    def _end_allowed(self, ps, s, env, cfg) -> Optional[str]:
        if int(s.step_count) >= self.time_limit(env, cfg):
            return "time_limit"
        if int(ps.frightened_state_time) <= 0 and self._touches_ghost(ps, s):
            return "ghost"
        if int(self._live(s.pellet_locations).sum()) == 0:
            return "all_pellets"
        return None

    def invalid_effect(self, ps, action, illegal, s, ts, env, cfg):
        a = int(action)
        old, new = self._player(ps), self._player(s)
        ok_cells = {old}
        if a == 4:
            # the docs say a no-op repeats the last direction, the code stands still (DESIGN 5, known non-violation):
            # both are accepted.
            g = np.asarray(ps.grid)
            ld = int(ps.last_direction)
            if 0 <= ld < 4:
                t = self._target(g, old, ld)
                if g[t] == 1:
                    ok_cells.add(t)
        if new not in ok_cells:
            return ("player_moved_on_invalid_action", f"player went from {old} to {new} on blocked/no-op action {a}")
        if int(ts.step_type) == 2 and self._end_allowed(ps, s, env, cfg) is None:
            return ("invalid_move_ended_episode", f"LAST after ignored action {a} at step {int(s.step_count)} without ghost contact, "
                    f"time limit or last pellet (player {new})")
        if not np.array_equal(np.asarray(s.grid), np.asarray(ps.grid)):
            return ("grid_changed", "the maze changed on an ignored move")
        # nothing is eaten on behalf of a move that did not happen: only a pellet / power-up under the player's own
        # cell may disappear (the start cell carries a pellet that is collected while standing on it).
        here = (new[1], new[0])
        for name in ("pellet_locations", "power_up_locations"):
            before, after = np.asarray(getattr(ps, name)), np.asarray(getattr(s, name))
            for i in np.flatnonzero((before != after).any(axis=1)):
                if after[i].any() or (int(before[i][0]), int(before[i][1])) != here:
                    return ("item_changed_away_from_player", f"{name}[{int(i)}] went {before[i].tolist()} -> {after[i].tolist()} while the "
                            f"player stayed on (col,row)={here}")
        return None

    # ---- C07 -------------------------------------------------------------------------------------
    def physical(self, ps, action, s, ts, env, cfg):
        g = np.asarray(s.grid)
        if g.shape != (31, 28):
            return ("grid_shape", f"{g.shape}")
        if ps is not None and not np.array_equal(g, np.asarray(ps.grid)):
            return ("walls_changed", "grid differs from the previous state")
        r, c = self._player(s)
        if not (0 <= r < 31 and 0 <= c < 28):
            return ("player_outside_grid", f"player (row, col)=({r}, {c})")
        if g[r, c] != 1:
            return ("player_in_wall", f"player (row, col)=({r}, {c}) is on a wall cell")
        gl = np.asarray(s.ghost_locations)
        if gl.shape != (4, 2):
            return ("ghost_count", f"ghost_locations shape {gl.shape}")
        for i, (gc, gr) in enumerate(gl.tolist()):
            if not (0 <= gr < 31 and 0 <= gc < 28):
                return ("ghost_outside_grid", f"ghost {i} at (col, row)=({gc}, {gr})")
            if g[gr, gc] != 1:
                return ("ghost_in_wall", f"ghost {i} at (col, row)=({gc}, {gr}) is on a wall cell")
        pel = np.asarray(s.pellet_locations)
        live = self._live(pel)
        if int(s.pellets) != int(live.sum()):
            return ("pellet_count", f"pellets={int(s.pellets)} but {int(live.sum())} pellet rows are live")
        for name, field, arr in (("pellet", "pellet_locations", pel), ("power_up", "power_up_locations", np.asarray(s.power_up_locations))):
            lv = arr.any(axis=1)
            cells = [(int(x), int(y)) for x, y in arr[lv]]
            if len(set(cells)) != len(cells):
                return (f"{name}_duplicated", f"two live {name} rows share a cell")
            for (x, y) in cells:
                if not (0 <= y < 31 and 0 <= x < 28) or g[y, x] != 1:
                    return (f"{name}_off_corridor", f"live {name} at (col, row)=({x}, {y}) is not on a corridor cell")
            if ps is not None:
                before = np.asarray(getattr(ps, field))
                changed = np.flatnonzero((before != arr).any(axis=1))
                for i in changed:
                    if arr[i].any():
                        return (f"{name}_not_subset_of_initial", f"{name} row {int(i)} changed {before[i].tolist()} -> {arr[i].tolist()} "
                                f"(items may only disappear)")
        return None

    # ---- C11 -------------------------------------------------------------------------------------
    def end_cause(self, ps, action, s, ts, env, cfg):
        if int(ps.frightened_state_time) <= 0 and self._touches_ghost(ps, s):
            return "ghost"
        if int(self._live(s.pellet_locations).sum()) == 0:
            return "all_pellets"
        return None

    # ---- reach probes ------------------------------------------------------------------------------
    def events(self, ps, action, s, ts, env, cfg):
        g = np.asarray(s.grid)
        R, C = g.shape
        new = self._player(s)
        gl1 = np.asarray(s.ghost_locations).reshape(-1, 2)
        if ps is None:
            pel = np.asarray(s.pellet_locations)
            on_pellet = bool(((pel[:, 0] == new[1]) & (pel[:, 1] == new[0]) & pel.any(axis=1)).any())
            return ["reset_player_on_pellet"] if on_pellet else []
        a, old = int(action), self._player(ps)
        ev = []
        if a == 4:
            ev.append("noop_played")
        elif not self.legal(ps, env)[a]:
            ev.append("move_blocked_by_wall")
        if new != old and abs(new[0] - old[0]) + abs(new[1] - old[1]) > 1:
            ev.append("player_tunnel_wrap_around")
        ev += (["player_in_bottom_rows"] if new[0] >= 28 else []) + (["player_in_edge_column"] if new[1] in (0, C - 1) else [])
        n_pel = int(self._live(ps.pellet_locations).sum()) - int(self._live(s.pellet_locations).sum())
        n_pow = int(self._live(ps.power_up_locations).sum()) - int(self._live(s.power_up_locations).sum())
        ev += (["pellet_eaten"] if n_pel > 0 else []) + (["power_up_eaten"] if n_pow > 0 else [])
        scared0, scared1 = int(ps.frightened_state_time) > 0, int(s.frightened_state_time) > 0
        if n_pow > 0 and scared0:
            ev.append("power_up_eaten_while_scatter_active")
        if scared0 and not scared1:
            ev.append("scatter_mode_expired")
        gl0 = np.asarray(ps.ghost_locations).reshape(-1, 2)
        d = np.abs(gl1 - gl0) if gl0.shape == gl1.shape else np.zeros_like(gl1)
        wrap = d[:, 0] == C - 1
        jump = (d.sum(axis=1) > 1) & ~wrap  # a ghost normally moves one cell: a jump is a ghost sent back to its start cell
        if jump.any():
            rew = float(ts.reward)
            ev.append(("ghost_eaten_while_scared" if rew >= 200.0 else "ghost_sent_home_while_scared_no_reward") if scared0 else "ghost_jump_outside_scatter_mode")
            if scared0 and (rew >= 400.0 or int(jump.sum()) >= 2):
                ev.append("two_ghosts_eaten_in_one_step")
        touch = self._touches_ghost(ps, s)  # the liberal reading of "touches" (C11): may hold without the env ending the game
        if touch and scared0 and not jump.any():
            ev.append("ghost_contact_reading_while_scared_ghost_stays")
        if touch and not scared0:
            ev.append("end_caught_by_ghost" if int(ts.step_type) == 2 else "ghost_contact_reading_without_end")
        if int(self._live(s.pellet_locations).sum()) == 0:
            ev.append("end_all_pellets_eaten")
        if wrap.any():
            ev.append("ghost_tunnel_wrap_around")
        if (gl1[:, 1] >= 28).any():
            ev.append("ghost_in_bottom_rows")
        return ev

    # ---- C12 -------------------------------------------------------------------------------------
    def observe(self, s, obs, env, cfg):
        for name in ("grid", "ghost_locations", "power_up_locations", "pellet_locations", "frightened_state_time", "score"):
            a, b = np.asarray(getattr(obs, name)), np.asarray(getattr(s, name))
            if a.shape != b.shape or not np.array_equal(a, b):
                return (name, f"obs.{name} != state.{name}" + (f" (first difference at {np.argwhere(a != b)[0].tolist()})" if a.shape == b.shape and a.ndim else f" ({a.tolist()} vs {b.tolist()})" if a.shape == b.shape else f" shapes {a.shape} vs {b.shape}"))
        op, sp = obs.player_locations, s.player_locations
        if int(op.x) != int(sp.x) or int(op.y) != int(sp.y):
            return ("player_locations", f"obs ({int(op.x)}, {int(op.y)}) vs state ({int(sp.x)}, {int(sp.y)})")
        if np.asarray(obs.action_mask).shape != (5,):
            return ("action_mask_shape", f"{np.asarray(obs.action_mask).shape}")
        return None  # the content of action_mask is C04's business (there is no state copy of it)

    # ---- policies ----------------------------------------------------------------------------------
    def _dist_from(self, g: np.ndarray, sources: List[Tuple[int, int]]) -> np.ndarray:
        R, C = g.shape
        d = np.full((R, C), 10 ** 6, dtype=np.int64)
        dq = deque()
        for rc in sources:
            if 0 <= rc[0] < R and 0 <= rc[1] < C and d[rc] != 0:
                d[rc] = 0
                dq.append(rc)
        while dq:
            r, c = dq.popleft()
            for a in range(4):
                t = self._target(g, (r, c), a)
                if g[t] == 1 and d[t] > d[r, c] + 1:
                    d[t] = d[r, c] + 1
                    dq.append(t)
        return d

    def policy_survive(self, s, env, rng, legal):
        """Move (legally) to the neighbouring cell from which the player reaches the largest territory before any
        ghost does (ghosts are harmless in scatter mode)."""
        if legal is None or not legal[:4].any():
            return None
        g = np.asarray(s.grid)
        ghosts = [(int(r), int(c)) for c, r in np.asarray(s.ghost_locations).tolist()]
        d = self._dist_from(g, ghosts)
        rc = self._player(s)
        scared = int(s.frightened_state_time) > 1
        stale = {(int(r), int(c)) for c, r in np.asarray(s.old_ghost_locations).tolist()}  # cells ghosts just left also count as contact
        best, best_a = None, None
        for a in [int(x) for x in rng.permutation(4)]:
            if not legal[a]:
                continue
            t = self._target(g, rc, a)
            dp = self._dist_from(g, [t])
            territory = int(((dp + 1 < d) & (g == 1)).sum())
            score = (1 if (scared or (d[t] >= 2 and t not in stale)) else 0, 1 if (scared or d[t] >= 3) else 0, territory, min(int(d[t]), 30))
            if best is None or score > best:
                best, best_a = score, a
        return best_a

    def policy_complete(self, s, env, rng, legal):
        """Tour the maze: head (by shortest corridor path, safe moves first) for the four outermost corridor corners
        in turn - bottom-left, bottom-right, top-right, top-left - switching target every 45 steps. The ghosts follow
        the player, so the border rows and columns and the tunnel get exercised by player and ghosts alike."""
        if legal is None or not legal[:4].any():
            return None
        g = np.asarray(s.grid)
        rows, cols = np.nonzero(g == 1)
        corners = []
        for want_bottom, want_right in ((True, False), (True, True), (False, True), (False, False)):
            r = rows.max() if want_bottom else rows.min()
            cs = cols[rows == r]
            corners.append((int(r), int(cs.max() if want_right else cs.min())))
        # the side tunnel: its two mouths are the corridor cells in the first and last column; heading from one mouth to a
        # cell just inside the other side makes the shortest path go through the wrap-around
        C = g.shape[1]
        left = [(int(r), 0) for r in np.flatnonzero(g[:, 0] == 1)]
        right = [(int(r), C - 1) for r in np.flatnonzero(g[:, C - 1] == 1)]
        tour = list(corners)
        if left and right:
            inner_r = (right[0][0], C - 3) if g[right[0][0], C - 3] == 1 else right[0]
            inner_l = (left[0][0], 2) if g[left[0][0], 2] == 1 else left[0]
            tour = [left[0], inner_r, corners[1], corners[0], right[0], inner_l, corners[2], corners[3]]
        # the tour starts at a run-dependent place (the reset key), so short episodes cover different legs
        target = tour[(int(s.step_count) // 45 + int(np.asarray(s.key).reshape(-1)[-1]) % len(tour)) % len(tour)]
        dt = self._dist_from(g, [target])
        ghosts = [(int(r), int(c)) for c, r in np.asarray(s.ghost_locations).tolist()]
        d = self._dist_from(g, ghosts)
        scared = int(s.frightened_state_time) > 1
        rc = self._player(s)
        best, best_a = None, None
        for a in [int(x) for x in rng.permutation(4)]:
            if not legal[a]:
                continue
            t = self._target(g, rc, a)
            score = (1 if (scared or d[t] >= 2) else 0, -int(dt[t]))
            if best is None or score > best:
                best, best_a = score, a
        return best_a

