"""RubiksCube: rules from docs/environments/rubiks_cube.md and the class docstring.

Cube (6, n, n) int8 of sticker colours 0..5; action (face 0..5, depth 0..n//2-1, amount 0..2). The goal is
"all stickers on each face match a single colour"; the episode ends when the cube is solved or at the time
limit. The observation is a copy of `cube` and `step_count`. (The geometry of the moves is C17's business.)
"""
from __future__ import annotations

from typing import Any, Dict, List, Optional

import numpy as np

from jsim.envs._mk import cfg, cross_tl
from jsim.envs.base import Adapter

# faces in the documented order up, front, right, back, left, down -> index of the opposite face
OPPOSITE = {0: 5, 5: 0, 1: 3, 3: 1, 2: 4, 4: 2}


def solved(cube: np.ndarray) -> bool:
    c = np.asarray(cube)
    return bool(all((c[f] == c[f].flat[0]).all() for f in range(c.shape[0])))


class A(Adapter):
    name = "RubiksCube"
    mask_mode = None
    has_observer = True

    def __init__(self) -> None:
        self._perms: Dict[int, np.ndarray] = {}  # cube size -> (moves, 6nn) sticker permutation per action (policy only)
        self._acts: Dict[int, List[List[int]]] = {}
        self._plans: Dict[bytes, List[List[int]]] = {}

    def configs(self):
        base = [cfg("n3s100", True, n=3, scr=100, tl=None), cfg("n2s2", True, n=2, scr=2, tl=None), cfg("n4s10", True, n=4, scr=10, tl=None),
                cfg("n5s0", n=5, scr=0, tl=None), cfg("n2s3", n=2, scr=3, tl=None)]
        return cross_tl(base, [1, 2, 3, 7])

    def build(self, c):
        from jumanji.environments import RubiksCube
        from jumanji.environments.logic.rubiks_cube.generator import ScramblingGenerator
        g = ScramblingGenerator(cube_size=c["n"], num_scrambles_on_reset=c["scr"])
        if c.get("tl") is None:
            return RubiksCube(generator=g)
        if c["tl"] == 2:
            return RubiksCube(g, c["tl"])  # (time_limit = 2 configurations pass the documented leading parameters positionally)
        return RubiksCube(generator=g, time_limit=c["tl"])

    def time_limit(self, env, c):
        return 200 if c.get("tl") is None else c["tl"]

    # ---- C11 -------------------------------------------------------------------------------------
    def end_cause(self, ps, action, s, ts, env, cfg):
        return "solved" if solved(s.cube) else None

    # ---- reach probes ---------------------------------------------------------------------------
    def events(self, ps, action, s, ts, env, cfg):
        cube = np.asarray(s.cube)
        uniform = int(sum(bool((cube[f] == cube[f].flat[0]).all()) for f in range(cube.shape[0])))
        if ps is None:
            ev = ["reset_solved"] if uniform == cube.shape[0] else []
            if cube.shape[1] >= 4:
                ev.append("reset_has_inner_layers")
            if cube.shape[1] % 2 == 0:
                ev.append("reset_even_cube")  # no fixed centre stickers
            return ev
        face, depth, amount = (int(v) for v in np.asarray(action).reshape(-1)[:3])
        ev = ["half_turn" if amount == 2 else ("clockwise_turn" if amount == 0 else "anticlockwise_turn")]
        if depth >= 1:
            ev.append("inner_layer_turn")
        if solved(ps.cube):
            ev.append("turn_on_solved_cube")
        if uniform == cube.shape[0]:
            ev.append("ended_solved")
            if depth >= 1:
                ev.append("solved_by_inner_layer_turn")
            if amount == 2:
                ev.append("solved_by_half_turn")
            if int(s.step_count) >= self.time_limit(env, cfg):
                ev.append("solved_at_time_limit")
        elif uniform >= 2:
            ev.append("two_or_more_uniform_faces")
        return ev

    # ---- C12 -------------------------------------------------------------------------------------
    def observe(self, s, obs, env, cfg):
        oc, sc = np.asarray(obs.cube), np.asarray(s.cube)
        if oc.shape != sc.shape:
            return ("cube_shape", f"obs.cube {oc.shape} vs state.cube {sc.shape}")
        if not np.array_equal(oc, sc):
            i = np.argwhere(oc != sc)[0]
            return ("cube", f"obs.cube{i.tolist()} = {int(oc[tuple(i)])} but state.cube = {int(sc[tuple(i)])}")
        if np.asarray(obs.step_count).shape != () or int(obs.step_count) != int(s.step_count):
            return ("step_count", f"obs.step_count {np.asarray(obs.step_count).tolist()} vs state.step_count {int(s.step_count)}")
        return None

    # ---- policies (clients; these may use the env as a black box) -------------------------------------
    def _all_actions(self, env: Any) -> List[List[int]]:
        nv = [int(v) for v in np.asarray(env.action_spec.num_values).reshape(-1)]
        return [[f, d, m] for f in range(nv[0]) for d in range(nv[1]) for m in range(nv[2])]

    def policy_survive(self, s, env, rng, legal):
        """A turn of a layer parallel to face F leaves the stickers of F and of the opposite face on their
        faces, so it cannot solve the cube unless both are already uniform: turn about an axis whose two
        faces are not both uniform (exists whenever the cube is not solved)."""
        c = np.asarray(s.cube)
        uni = [bool((c[f] == c[f].flat[0]).all()) for f in range(6)]
        acts = self._all_actions(env)
        safe = [a for a in acts if not (uni[a[0]] and uni[OPPOSITE[a[0]]])]
        pool = safe or acts  # solved cube at reset (0 scrambles): any single turn unsolves it
        return list(pool[int(rng.integers(0, len(pool)))])

    def _tables(self, s: Any, env: Any) -> np.ndarray:
        """Sticker permutation of every action, learned by stepping two labelled cubes through the real env."""
        n = int(np.asarray(s.cube).shape[1])
        if n not in self._perms:
            import jax
            import jax.numpy as jnp

            acts = self._all_actions(env)
            size = 6 * n * n
            lab = np.arange(size)
            fork = jax.jit(jax.vmap(env.step, in_axes=(None, 0)))
            out = []
            for plane in (lab // 100, lab % 100):
                st = s.replace(cube=jnp.asarray(plane.reshape(6, n, n), dtype=jnp.int8), step_count=jnp.asarray(0, jnp.int32),
                               key=jnp.asarray(s.key))
                ns, _ = fork(st, jnp.asarray(acts, dtype=jnp.int32))
                out.append(np.asarray(ns.cube).reshape(len(acts), size).astype(np.int64))
            self._perms[n] = out[0] * 100 + out[1]  # new.flat[i] = old.flat[perm[i]]
            self._acts[n] = acts
        return self._perms[n]

    def policy_complete(self, s, env, rng, legal):
        """Breadth-first search (depth <= 3) over the learned move permutations; only for lightly scrambled cubes."""
        scr = int(getattr(env.generator, "num_scrambles_on_reset", 99))
        if scr > 3:
            return None
        cube = np.asarray(s.cube)
        n = cube.shape[1]
        key = cube.tobytes()
        plan = self._plans.get(key)
        if plan:
            return list(plan[0])
        perms = self._tables(s, env)
        acts = self._acts[n]
        if solved(cube):
            return list(acts[int(rng.integers(0, len(acts)))])
        frontier = cube.reshape(1, -1)
        paths: List[List[int]] = [[]]
        for _ in range(3):
            nxt = frontier[:, perms]  # (k, moves, size)
            k, m, size = nxt.shape
            faces = nxt.reshape(k, m, 6, n * n)
            ok = (faces == faces[..., :1]).all(axis=(2, 3))
            hit = np.argwhere(ok)
            if len(hit):
                i, a = int(hit[0][0]), int(hit[0][1])
                word = paths[i] + [a]
                cur = cube.reshape(-1)
                self._plans.clear()
                for j, w in enumerate(word):
                    self._plans[cur.reshape(cube.shape).astype(cube.dtype).tobytes()] = [acts[x] for x in word[j:]]
                    cur = cur[perms[w]]
                return list(acts[word[0]])
            if k * m > 2000:
                break
            frontier = nxt.reshape(k * m, size)
            paths = [p + [a] for p in paths for a in range(m)]
        return None
