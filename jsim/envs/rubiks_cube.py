from jsim.envs.base import Adapter
from jsim.envs._mk import cfg, cross_tl


class A(Adapter):
    name = "RubiksCube"
    mask_mode = None

    def configs(self):
        base = [cfg("n3s100", True, n=3, scr=100, tl=None), cfg("n2s3", True, n=2, scr=3, tl=None), cfg("n4s10", n=4, scr=10, tl=None),
                cfg("n5s0", n=5, scr=0, tl=None)]
        return cross_tl(base, [1, 2, 3, 7])

    def build(self, c):
        from jumanji.environments import RubiksCube
        from jumanji.environments.logic.rubiks_cube.generator import ScramblingGenerator
        g = ScramblingGenerator(cube_size=c["n"], num_scrambles_on_reset=c["scr"])
        if c.get("tl") is None:
            return RubiksCube(generator=g)
        return RubiksCube(generator=g, time_limit=c["tl"])

    def time_limit(self, env, c):
        return 200 if c.get("tl") is None else c["tl"]
