from jsim.envs.base import Adapter
from jsim.envs._mk import cfg, cross_tl


class A(Adapter):
    name = "Tetris"
    mask_mode = "joint"
    terminate_on_invalid = True

    def configs(self):
        base = [cfg("r10c10", True, r=10, c=10, tl=None), cfg("r6c6", True, r=6, c=6, tl=None), cfg("r8c5", r=8, c=5, tl=None),
                cfg("r5c9", r=5, c=9, tl=None)]
        return cross_tl(base, [1, 2, 3, 7])

    def build(self, c):
        from jumanji.environments import Tetris
        kw = {} if c.get("tl") is None else {"time_limit": c["tl"]}
        return Tetris(num_rows=c["r"], num_cols=c["c"], **kw)

    def time_limit(self, env, c):
        return 400 if c.get("tl") is None else c["tl"]
