"""Tetris: rules written from docs/environments/tetris.md and the class docstring.

Grid of num_rows x num_cols (state.grid_padded carries 3 extra rows/columns of padding that must
stay empty). Action [rotation, x]: the shown tetromino is rotated by rotation * 90 degrees
(clockwise, re-anchored to the top-left corner of its 4x4 box), put with its left edge in column x
and dropped straight down from the top until it rests. Completed lines disappear, everything above
moves down; the reward for 0..4 cleared lines is [0, 40, 100, 300, 1200]. The episode ends on an
invalid placement (reward 0), when the stack reaches the top (the next tetromino cannot be placed
any more) or at the time limit.

Legal set: the docs only say "the game ends when the stack reaches the top", so the mask is judged
with a two-sided bound (DESIGN section 4, C04):
  hi: the rotated piece lies within the columns at x and fits at the top (y = 0) without overlap, so a
      straight drop comes to rest fully inside the visible grid;
  lo: the piece lies within the columns and rows 0-3 (the entry rows) of the columns it spans are empty.
Between the two (partly filled entry rows) nothing is asserted.

Known non-violation: state.y_position is -1 for a flat piece dropped on empty columns (the grid is
right); y_position is therefore not part of the model.
"""
from __future__ import annotations

from typing import Any, Dict, List, Optional, Tuple

import numpy as np

from jsim.envs._mk import cfg, cross_tl
from jsim.envs.base import Adapter

REWARD = [0.0, 40.0, 100.0, 300.0, 1200.0]  # docs: reward_list, indexed by the number of lines cleared


def _cells(base: Any, r: int) -> List[Tuple[int, int]]:
    """Cells (row, col) of the tetromino `base` (4x4) turned clockwise r times, anchored top-left."""
    p = np.rot90(np.asarray(base) != 0, k=-int(r))
    rows, cols = np.flatnonzero(p.any(axis=1)), np.flatnonzero(p.any(axis=0))
    if len(rows) == 0:
        return []
    return [(int(i - rows[0]), int(j - cols[0])) for i, j in np.argwhere(p)]


def _is_tetromino(t: np.ndarray) -> bool:
    """4 cells, edge-connected, anchored to the top-left of the 4x4 box."""
    t = np.asarray(t)
    if t.shape != (4, 4) or not np.isin(t, (0, 1)).all() or int(t.sum()) != 4:
        return False
    cells = [tuple(int(v) for v in c) for c in np.argwhere(t == 1)]
    if min(c[0] for c in cells) != 0 or min(c[1] for c in cells) != 0:
        return False
    seen, stack = {cells[0]}, [cells[0]]
    while stack:
        i, j = stack.pop()
        for n in ((i + 1, j), (i - 1, j), (i, j + 1), (i, j - 1)):
            if n in cells and n not in seen:
                seen.add(n)
                stack.append(n)
    return len(seen) == 4


class A(Adapter):
    name = "Tetris"
    mask_mode = "joint"
    terminate_on_invalid = True
    has_invalid_effect = True
    has_physical = True
    has_model = True
    has_observer = True

    def configs(self):
        # the small quick configuration is non-square (rows != columns != padded sizes): shape slips between reset and step
        # states, row/column mix-ups and padding arithmetic are invisible on square boards
        base = [cfg("r10c10", True, r=10, c=10, tl=None), cfg("r7c5", True, r=7, c=5, tl=None), cfg("r8c5", r=8, c=5, tl=None),
                cfg("r5c9", r=5, c=9, tl=None), cfg("r6c6", r=6, c=6, tl=None)]
        return cross_tl(base, [1, 2, 3, 7])

    def build(self, c):
        from jumanji.environments import Tetris
        if c.get("tl") == 2:
            return Tetris(c["r"], c["c"], c["tl"])  # (time_limit = 2 configurations pass the documented leading parameters positionally)
        kw = {} if c.get("tl") is None else {"time_limit": c["tl"]}
        return Tetris(num_rows=c["r"], num_cols=c["c"], **kw)

    def time_limit(self, env, c):
        return 400 if c.get("tl") is None else c["tl"]

    # ---- rules -------------------------------------------------------------------------------------
    @staticmethod
    def _occ(s: Any) -> np.ndarray:
        g = np.asarray(s.grid_padded)
        return g[: g.shape[0] - 3, : g.shape[1] - 3] != 0

    def legal_bounds(self, s: Any, env: Any) -> Tuple[np.ndarray, np.ndarray]:
        occ = self._occ(s)
        R, C = occ.shape
        lo = np.zeros((4, C), bool)
        hi = np.zeros((4, C), bool)
        for r in range(4):
            cells = _cells(s.new_tetromino, r)
            if not cells:
                continue
            w = max(j for _, j in cells) + 1
            for x in range(C - w + 1):  # the piece lies within the columns
                # it can enter at the top: the piece comes from above the grid, so every cell of it needs a free column
                # above it as well (a foot cannot pass through a filled cell of the top row into a hollow underneath)
                hi[r, x] = not any(occ[:i + 1, x + j].any() for i, j in cells)
                lo[r, x] = not occ[:4, x:x + w].any()  # the entry rows above the landing columns are empty
        return lo, hi

    def describe(self, s, env, idx):
        r, x = int(idx[0]), int(idx[1])
        return f"rotation {r} (cells {_cells(s.new_tetromino, r)}) at x={x}; top rows of the grid:\n{self._occ(s)[:4].astype(int)}"

    @staticmethod
    def _place(occ: np.ndarray, cells: List[Tuple[int, int]], x: int) -> Tuple[np.ndarray, int, np.ndarray]:
        """Straight drop from the top, then line clearing. Returns (new grid, lines cleared, grid before clearing)."""
        R, C = occ.shape
        h = max(i for i, _ in cells) + 1
        y = 0
        while y + 1 + h <= R and not any(occ[y + 1 + i, x + j] for i, j in cells):
            y += 1
        g = occ.copy()
        for i, j in cells:
            g[y + i, x + j] = True
        full = g.all(axis=1)
        k = int(full.sum())
        out = np.zeros_like(g)
        if k < R:
            out[k:] = g[~full]
        return out, k, g

    def _verdict(self, ps: Any, action: Any, env: Any) -> Tuple[Optional[bool], np.ndarray, np.ndarray]:
        """True = legal by the rules, False = illegal, None = the rules are silent (between the bounds)."""
        lo, hi = self.legal_bounds(ps, env)
        r, x = int(action[0]), int(action[1])
        if lo[r, x]:
            return True, lo, hi
        if not hi[r, x]:
            return False, lo, hi
        return None, lo, hi

    # ---- C05 -----------------------------------------------------------------------------------------
    def invalid_effect(self, ps, action, illegal, s, ts, env, cfg):
        if int(ts.step_type) != 2:
            return ("invalid_placement_not_terminal", f"step_type {int(ts.step_type)} after an illegal placement")
        if float(ts.reward) != 0.0:
            return ("invalid_placement_reward", f"reward {float(ts.reward)} != 0 on an illegal placement")
        if float(ts.discount) != 0.0:
            return ("invalid_placement_discount", f"discount {float(ts.discount)} != 0 on the terminal step")
        return None

    # ---- C07 -----------------------------------------------------------------------------------------
    def physical(self, ps, action, s, ts, env, cfg):
        g = np.asarray(s.grid_padded)
        R, C = g.shape[0] - 3, g.shape[1] - 3
        if (R, C) != (cfg["r"], cfg["c"]):
            return ("grid_shape", f"grid_padded {g.shape} for a {cfg['r']}x{cfg['c']} game")
        if (g < 0).any():
            return ("negative_cell", f"grid_padded has negative entries")
        if (g[R:] != 0).any() or (g[:, C:] != 0).any():
            i = np.argwhere((g != 0) & ~np.pad(np.ones((R, C), bool), ((0, 3), (0, 3))))[0]
            return ("padding_not_empty", f"padding cell {i.tolist()} holds {int(g[tuple(i)])}")
        occ = g[:R, :C] != 0
        if occ.all(axis=1).any():
            return ("full_line_remains", f"row {int(np.flatnonzero(occ.all(axis=1))[0])} is full and was not cleared")
        n = int(occ.sum())
        if ps is None:
            if n != 0:
                return ("reset_grid_not_empty", f"{n} filled cells after reset")
            return None
        n0 = int(self._occ(ps).sum())
        lost = n0 + 4 - n  # the episode continues, so the placement was accepted: +4 cells, minus the cleared rows
        if lost < 0 or lost % C or lost // C > 4:
            return ("cell_count", f"{n0} cells before, {n} after placing a tetromino: not +4 minus a multiple (0..4) of num_cols={C}")
        k = lost // C
        if not np.isclose(float(ts.reward), REWARD[k], rtol=1e-5, atol=1e-6):
            return ("cell_count_vs_reward", f"{k} rows' worth of cells disappeared ({n0}+4 -> {n}) but the reward {float(ts.reward)} is not {REWARD[k]}")
        return None

    # ---- C09 -----------------------------------------------------------------------------------------
    def model_step(self, ps, action, s, ts, env, cfg):
        r, x = int(action[0]), int(action[1])
        verdict, _, _ = self._verdict(ps, action, env)
        if verdict is None:
            # partly filled entry rows: the rules are silent, the env's own mask decides which branch is compared
            verdict = bool(np.asarray(ps.action_mask)[r, x])
        last = int(ts.step_type) == 2
        if not verdict:  # the successor state is unspecified; reward 0 and the episode ends
            if not last:
                return ("termination", f"illegal placement {[r, x]} but step_type {int(ts.step_type)}")
            if float(ts.reward) != 0.0:
                return ("reward", f"reward {float(ts.reward)} on an illegal placement")
            return None
        occ = self._occ(ps)
        R, C = occ.shape
        cells = _cells(ps.new_tetromino, r)
        want, k, before = self._place(occ, cells, x)
        got = self._occ(s)
        if not np.array_equal(got, want):
            i = np.argwhere(got != want)[0]
            return ("grid", f"after dropping rotation {r} at x={x} ({k} lines cleared) cell {i.tolist()} is {bool(got[tuple(i)])}, rules say "
                    f"{bool(want[tuple(i)])}\nenv:\n{got.astype(int)}\nrules:\n{want.astype(int)}")
        if not np.isclose(float(ts.reward), REWARD[k], rtol=1e-5, atol=1e-6):
            return ("reward", f"{k} lines cleared: reward {float(ts.reward)} expected {REWARD[k]}")
        if not np.isclose(float(s.reward), REWARD[k], rtol=1e-5, atol=1e-6):
            return ("state_reward", f"state.reward {float(s.reward)} expected {REWARD[k]}")
        if not np.isclose(float(s.score), float(ps.score) + REWARD[k], rtol=1e-5, atol=1e-6):
            return ("score", f"score {float(s.score)} expected {float(ps.score) + REWARD[k]}")
        sc = int(ps.step_count) + 1
        if int(s.step_count) != sc:
            return ("step_count", f"step_count {int(s.step_count)} expected {sc}")
        # bookkeeping fields documented in the State docstring
        if not np.array_equal(np.asarray(s.grid_padded_old), np.asarray(ps.grid_padded)):
            return ("grid_padded_old", "grid_padded_old is not the grid before the placement")
        if int(s.x_position) != x:
            return ("x_position", f"x_position {int(s.x_position)} expected {x}")
        placed = np.zeros((4, 4), bool)
        for i, j in cells:
            placed[i, j] = True
        if not np.array_equal(np.asarray(s.old_tetromino_rotated) != 0, placed):
            return ("old_tetromino_rotated", f"old_tetromino_rotated is not rotation {r} of the shown tetromino")
        fl = np.asarray(s.full_lines).astype(bool)
        wfl = np.zeros(fl.shape, bool)
        wfl[:R] = before.all(axis=1)
        if not np.array_equal(fl, wfl):
            return ("full_lines", f"full_lines {np.flatnonzero(fl).tolist()} expected {np.flatnonzero(wfl).tolist()}")
        # random part by set membership: the next piece is one of the tetrominoes
        nt = np.asarray(s.new_tetromino)
        if not _is_tetromino(nt):
            return ("next_piece", f"new_tetromino is not a tetromino anchored top-left:\n{nt}")
        if not 0 <= int(s.tetromino_index) < 7:
            return ("next_piece_index", f"tetromino_index {int(s.tetromino_index)} outside 0..6")
        # termination: time limit, or the next piece cannot be placed any more (two-sided)
        lo2, hi2 = self.legal_bounds(s, env)
        tl = self.time_limit(env, cfg)
        if sc >= tl or not hi2.any():
            if not last:
                return ("termination", f"step_type {int(ts.step_type)} but the rules say done (step {sc}/{tl}, placeable={bool(hi2.any())})")
        elif lo2.any():
            if last:
                return ("termination", f"episode ended at step {sc}/{tl} after a legal placement although the next piece can be placed")
        return None

    # ---- C11 -----------------------------------------------------------------------------------------
    def end_cause(self, ps, action, s, ts, env, cfg):
        verdict, _, _ = self._verdict(ps, action, env)
        if verdict is None:
            verdict = bool(np.asarray(ps.action_mask)[int(action[0]), int(action[1])])
        if not verdict:
            return "invalid_action"
        lo2, hi2 = self.legal_bounds(s, env)
        if not hi2.any():
            return "board_topped_out"
        if not lo2.any():
            # every entry position is at least partly blocked: "the stack reached the top" cannot be refuted
            return "board_topped_out_entry_rows_partly_filled"
        return None

    # ---- reach probes -------------------------------------------------------------------------------
    def events(self, ps, action, s, ts, env, cfg):
        if ps is None:
            occ = self._occ(s)
            return ["reset"] + (["reset_nonsquare"] if occ.shape[0] != occ.shape[1] else [])
        r, x = int(action[0]), int(action[1])
        occ = self._occ(ps)
        R, C = occ.shape
        cells = _cells(ps.new_tetromino, r)
        width = (max(j for _, j in cells) + 1) if cells else 0
        verdict, _, _ = self._verdict(ps, action, env)
        ev = []
        if verdict is None:
            ev.append("placement_between_bounds")  # partly filled entry rows: the rules are silent, the env's mask decides
            verdict = bool(np.asarray(ps.action_mask)[r, x])
        if not verdict or not cells:
            return ev + ["ended_invalid_placement", "invalid_outside_columns" if x + width > C else "invalid_blocked_at_top"]
        want, k, before = self._place(occ, cells, x)
        ev.append(f"lines_cleared_{k}" if k else "no_line_cleared")
        rows = np.flatnonzero(before.all(axis=1))
        if k >= 2 and int(rows[-1] - rows[0]) + 1 > k:
            ev.append("non_adjacent_multi_clear")
        if k and not want.any():
            ev.append("grid_emptied_by_clear")
        if r != 0:
            ev.append("rotated_placement")
        if x + width == C:
            ev.append("placed_at_right_edge")
        top = int(np.flatnonzero((before & ~occ).any(axis=1))[0])  # highest row of the piece where it came to rest
        if top < 4:
            ev.append("piece_rests_in_entry_rows")
        if top == 0:
            ev.append("piece_rests_in_top_row")
        if int(ts.step_type) == 2 and int(ps.step_count) + 1 < self.time_limit(env, cfg):
            lo2, hi2 = self.legal_bounds(s, env)
            if not lo2.any():
                ev.append("ended_topped_out" if not hi2.any() else "ended_topped_out_entry_rows_partly_filled")
        return ev

    # ---- C12 -----------------------------------------------------------------------------------------
    def observe(self, s, obs, env, cfg):
        occ = self._occ(s).astype(np.int64)
        g = np.asarray(obs.grid)
        if g.shape != occ.shape:
            return ("grid_shape", f"{g.shape} vs {occ.shape}")
        if not np.array_equal(g, occ):
            i = np.argwhere(g != occ)[0]
            return ("grid", f"observation.grid{i.tolist()}={int(g[tuple(i)])} but the state's cell is {'filled' if occ[tuple(i)] else 'empty'}")
        if not np.array_equal(np.asarray(obs.tetromino), np.asarray(s.new_tetromino)):
            return ("tetromino", f"observation.tetromino differs from state.new_tetromino")
        if not np.array_equal(np.asarray(obs.action_mask), np.asarray(s.action_mask)):
            return ("action_mask", "observation.action_mask != state.action_mask")
        if int(obs.step_count) != int(s.step_count):
            return ("step_count", f"observation.step_count {int(obs.step_count)} vs state.step_count {int(s.step_count)}")
        return None

    # ---- policies --------------------------------------------------------------------------------------
    def policy_survive(self, s, env, rng, legal):
        """Keep the stack flat and low: low aggregate height, few holes, little bumpiness, line clears."""
        if legal is None or not legal.any():
            return None
        occ = self._occ(s)
        R, C = occ.shape
        best, best_a = None, None
        for r in range(4):
            cells = _cells(s.new_tetromino, r)
            for x in np.flatnonzero(legal[r]):
                g, k, _ = self._place(occ, cells, int(x))
                filled = g.any(axis=0)
                top = np.where(filled, g.argmax(axis=0), R)  # first filled row per column
                heights = R - top
                holes = int(sum((~g[top[c]:, c]).sum() for c in range(C)))
                bump = int(np.abs(np.diff(heights)).sum())
                # classic linear evaluation (aggregate height, holes, bumpiness, cleared lines); ties by index
                score = (round(0.51 * float(heights.sum()) + 0.36 * holes + 0.18 * bump - 0.76 * k, 6), r, int(x))
                if best is None or score < best:
                    best, best_a = score, [r, int(x)]
        return best_a
