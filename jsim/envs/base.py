"""Adapter base: what the simulator needs to know about one jumanji environment.

An adapter owns the configuration menu, builds the real env, and holds the *independent* rule
statements (legal set, documented invalid effect, constraints, conservation, objective, observer,
transition model). Everything here works on NumPy copies of the state (``s``) - field access by the
state's own attribute names, no code shared with /repo.
"""
from __future__ import annotations

import itertools
from typing import Any, Dict, List, Optional, Tuple

import numpy as np


class Adapter:
    name = "?"
    mask_mode: Optional[str] = None  # "flat" | "joint" | "per_agent" | None
    terminate_on_invalid = False
    noop: Optional[int] = None  # per-agent no-op index in multi-agent envs
    fork_every = 1  # C04/C05: fork on every k-th visited state (expensive envs use 4)
    max_enum = 4096

    # ---- configuration ---------------------------------------------------------------------
    def configs(self) -> List[Dict[str, Any]]:
        raise NotImplementedError

    def build(self, cfg: Dict[str, Any]) -> Any:
        raise NotImplementedError

    def time_limit(self, env: Any, cfg: Dict[str, Any]) -> Optional[int]:
        """The limit *the user configured* (None when the env has no time limit)."""
        return None

    def horizon(self, env: Any, cfg: Dict[str, Any]) -> Optional[int]:
        """Structural horizon for envs without a time limit."""
        return None

    def max_steps(self, env: Any, cfg: Dict[str, Any]) -> int:
        tl = self.time_limit(env, cfg)
        hz = self.horizon(env, cfg)
        cap = tl if tl is not None else (hz if hz is not None else 200)
        return int(min(cap + 3, 400))

    # ---- action space ----------------------------------------------------------------------
    def num_values(self, env: Any) -> np.ndarray:
        spec = env.action_spec
        nv = getattr(spec, "num_values", None)
        if nv is None:  # BoundedArray (MultiCVRP)
            return np.asarray(spec.maximum) - np.asarray(spec.minimum) + 1
        return np.asarray(nv)

    def inspec_action(self, env: Any, rng: np.random.Generator) -> Any:
        nv = self.num_values(env)
        if nv.ndim == 0:
            return int(rng.integers(0, int(nv)))
        return [int(rng.integers(0, int(n))) for n in nv.reshape(-1)]

    def env_mask(self, obs: Any) -> Optional[np.ndarray]:
        m = getattr(obs, "action_mask", None)
        return None if m is None else np.asarray(m).astype(bool)

    # ---- independent rules (filled per env) ------------------------------------------------
    def legal(self, s: Any, env: Any) -> Optional[np.ndarray]:
        """Independent legal set, same shape as the env's mask. None = no model yet."""
        return None

    def legal_bounds(self, s: Any, env: Any) -> Optional[Tuple[np.ndarray, np.ndarray]]:
        """(lo, hi): lo <= mask <= hi must hold entrywise. Default lo = hi = legal()."""
        m = self.legal(s, env)
        return None if m is None else (m, m)

    def judged(self, s: Any, env: Any) -> Optional[np.ndarray]:
        """Entries of the mask on which the rules speak (None = all)."""
        return None

    def end_cause(self, ps: Any, action: Any, s: Any, ts: Any, env: Any, cfg: Dict[str, Any]) -> Optional[str]:
        """C11: an episode ended before the time limit - name the documented cause that holds for this
        transition (independently of the env's own done flag), None if there is none, or "unmodelled"."""
        return "unmodelled"

    # ---- policies (omniscient clients); return None to fall back ------------------------------
    def policy_survive(self, s: Any, env: Any, rng: np.random.Generator, legal: Optional[np.ndarray]) -> Any:
        return None

    def policy_complete(self, s: Any, env: Any, rng: np.random.Generator, legal: Optional[np.ndarray]) -> Any:
        return None

    def policy_collide(self, s: Any, env: Any, rng: np.random.Generator, legal: Optional[np.ndarray]) -> Any:
        return None

    # ---- helpers ---------------------------------------------------------------------------
    def pick(self, mask: np.ndarray, rng: Optional[np.random.Generator], how: str = "uniform") -> Tuple[Any, bool]:
        """Choose an action whose mask entry is True. Returns (action, forced) where forced is
        True when some entity had no True entry and index 0 was used instead."""
        mode = self.mask_mode
        mask = np.asarray(mask).astype(bool)
        forced = False
        if mode == "per_agent":
            out = []
            for row in mask:
                idx = np.flatnonzero(row)
                if len(idx) == 0:
                    out.append(0)
                    forced = True
                elif how == "first":
                    out.append(int(idx[0]))
                elif how == "last":
                    out.append(int(idx[-1]))
                else:
                    out.append(int(idx[int(rng.integers(0, len(idx)))]))
            return out, forced
        idx = np.flatnonzero(mask.reshape(-1))
        if len(idx) == 0:
            flat, forced = 0, True
        elif how == "first":
            flat = int(idx[0])
        elif how == "last":
            flat = int(idx[-1])
        else:
            flat = int(idx[int(rng.integers(0, len(idx)))])
        if mode == "flat":
            return flat, forced
        return [int(i) for i in np.unravel_index(flat, mask.shape)], forced

    def enumerate_actions(self, env: Any, mask_shape: Tuple[int, ...], base: Any, rng: np.random.Generator
                          ) -> Tuple[np.ndarray, List[Tuple[int, ...]], bool]:
        """All actions of the space as an array plus, for each, the mask index it corresponds to.
        per_agent: one agent varies while the others play ``base``. Returns (actions, idx, complete)."""
        mode = self.mask_mode
        if mode == "flat":
            n = int(mask_shape[0])
            return np.arange(n), [(i,) for i in range(n)], True
        if mode == "joint":
            total = int(np.prod(mask_shape))
            if total <= self.max_enum:
                idx = list(itertools.product(*[range(k) for k in mask_shape]))
                return np.asarray(idx), [tuple(i) for i in idx], True
            flat = np.sort(rng.choice(total, size=512, replace=False))
            idx = [tuple(int(v) for v in np.unravel_index(int(f), mask_shape)) for f in flat]
            return np.asarray(idx), idx, False
        if mode == "per_agent":
            n_agents, n_act = mask_shape
            acts, idx = [], []
            for i in range(n_agents):
                for a in range(n_act):
                    j = list(base)
                    j[i] = a
                    acts.append(j)
                    idx.append((i, a))
            return np.asarray(acts), idx, True
        raise ValueError(mode)


def bfs_path(free: np.ndarray, start: Tuple[int, int], goal_fn: Any) -> Optional[List[Tuple[int, int]]]:
    """4-neighbour BFS on a boolean grid of free cells; returns the cell path start..goal."""
    from collections import deque

    R, C = free.shape
    prev = {start: None}
    dq = deque([start])
    while dq:
        cur = dq.popleft()
        if goal_fn(cur):
            path = []
            while cur is not None:
                path.append(cur)
                cur = prev[cur]
            return path[::-1]
        r, c = cur
        for dr, dc in ((-1, 0), (0, 1), (1, 0), (0, -1)):
            nr, nc = r + dr, c + dc
            if 0 <= nr < R and 0 <= nc < C and free[nr, nc] and (nr, nc) not in prev:
                prev[(nr, nc)] = cur
                dq.append((nr, nc))
    return None
