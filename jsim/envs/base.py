"""Adapter base: what the simulator needs to know about one jumanji environment.

An adapter owns the configuration menu, builds the real env, and holds the *independent* rule
statements (legal set, documented invalid effect, constraints, conservation, objective, observer,
transition model). Everything here works on NumPy copies of the state (``s``) - field access by the
state's own attribute names, no code shared with /repo.
"""
from __future__ import annotations

import itertools
from typing import Any, Dict, List, Optional, Tuple

import numpy as np


class Adapter:
    name = "?"
    mask_mode: Optional[str] = None  # "flat" | "joint" | "per_agent" | None
    terminate_on_invalid = False
    noop: Optional[int] = None  # per-agent no-op index in multi-agent envs
    fork_every = 1  # C04/C05: fork on every k-th visited state (expensive envs use 4)
    max_enum = 4096
    run_scale = 3  # quick-tier run multiplier: cheap envs get 3x the base run count, expensive ones 1x

    # ---- configuration ---------------------------------------------------------------------
    def configs(self) -> List[Dict[str, Any]]:
        raise NotImplementedError

    def build(self, cfg: Dict[str, Any]) -> Any:
        raise NotImplementedError

    def time_limit(self, env: Any, cfg: Dict[str, Any]) -> Optional[int]:
        """The limit *the user configured* (None when the env has no time limit)."""
        return None

    def horizon(self, env: Any, cfg: Dict[str, Any]) -> Optional[int]:
        """Structural horizon for envs without a time limit."""
        return None

    def max_steps(self, env: Any, cfg: Dict[str, Any]) -> int:
        tl = self.time_limit(env, cfg)
        hz = self.horizon(env, cfg)
        cap = tl if tl is not None else (hz if hz is not None else 200)
        return int(min(cap + 3, 400))

    # ---- action space ----------------------------------------------------------------------
    def num_values(self, env: Any) -> np.ndarray:
        spec = env.action_spec
        nv = getattr(spec, "num_values", None)
        if nv is None:  # BoundedArray (MultiCVRP)
            return np.asarray(spec.maximum) - np.asarray(spec.minimum) + 1
        return np.asarray(nv)

    def inspec_action(self, env: Any, rng: np.random.Generator) -> Any:
        nv = self.num_values(env)
        if nv.ndim == 0:
            return int(rng.integers(0, int(nv)))
        return [int(rng.integers(0, int(n))) for n in nv.reshape(-1)]

    def env_mask(self, obs: Any) -> Optional[np.ndarray]:
        m = getattr(obs, "action_mask", None)
        return None if m is None else np.asarray(m).astype(bool)

    # ---- independent rules (filled per env) ------------------------------------------------
    def legal(self, s: Any, env: Any) -> Optional[np.ndarray]:
        """Independent legal set, same shape as the env's mask. None = no model yet."""
        return None

    def legal_bounds(self, s: Any, env: Any) -> Optional[Tuple[np.ndarray, np.ndarray]]:
        """(lo, hi): lo <= mask <= hi must hold entrywise. Default lo = hi = legal()."""
        m = self.legal(s, env)
        return None if m is None else (m, m)

    def judged(self, s: Any, env: Any) -> Optional[np.ndarray]:
        """Entries of the mask on which the rules speak (None = all)."""
        return None

    def describe(self, s: Any, env: Any, idx: Tuple[int, ...]) -> str:
        """Human-readable context for a mask entry (used in violation details)."""
        return ""

    def base_action(self, s: Any, env: Any, legal: np.ndarray) -> Any:
        """Joint action the *other* agents play while one agent's action is varied in a fork."""
        if self.mask_mode == "per_agent" and self.noop is not None:
            return [self.noop] * int(legal.shape[0])
        a, _ = self.pick(legal, None, "first")
        return a

    # C04 (b): did step treat this action as an invalid move? True / False / None (cannot tell)
    has_reaction = False

    def reaction_invalid(self, ps: Any, action: Any, agent: Optional[int], s: Any, ts: Any, env: Any, cfg: Dict[str, Any]) -> Optional[bool]:
        return None

    # C05: deviation from the documented effect of an illegal action. ``illegal`` says which part of
    # the action is illegal (per_agent: list of agent indices; otherwise True). None = conforms.
    has_invalid_effect = False

    def invalid_effect(self, ps: Any, action: Any, illegal: Any, s: Any, ts: Any, env: Any, cfg: Dict[str, Any]) -> Optional[Tuple[str, str]]:
        return None

    def illegal_actions(self, s: Any, env: Any, rng: np.random.Generator) -> Optional[Tuple[List[Any], List[Any], bool]]:
        """Every in-spec action the independent rules forbid in ``s``: (actions, which, complete).
        per_agent: one agent plays an illegal action while the others play ``base_action`` (which=[i]),
        plus one joint action in which every agent that has an illegal action plays one."""
        if not self.has_invalid_effect:
            return None
        b = self.legal_bounds(s, env)
        if b is None:
            return None
        lo, hi = b
        bad = ~hi
        j = self.judged(s, env)
        if j is not None:
            bad = bad & j
        if self.mask_mode == "per_agent":
            base = self.base_action(s, env, lo)
            acts, which = [], []
            for i, a in np.argwhere(bad):
                joint = list(base)
                joint[int(i)] = int(a)
                acts.append(joint)
                which.append([int(i)])
            rows = np.flatnonzero(bad.any(axis=1))
            if len(rows) > 1:
                joint = list(base)
                for i in rows:
                    idx = np.flatnonzero(bad[i])
                    joint[int(i)] = int(idx[int(rng.integers(0, len(idx)))])
                acts.append(joint)
                which.append([int(i) for i in rows])
            # the same illegal actions while the *other* agents make legal moves of their own (two random legal
            # backgrounds): an ignored action must stay ignored whatever the others do in the same step
            pairs = np.argwhere(bad)
            if len(pairs) and lo.any(axis=1).all():
                for _ in range(2):
                    bg = [int(rng.choice(np.flatnonzero(lo[j]))) for j in range(lo.shape[0])]
                    sel = pairs if len(pairs) <= 64 else pairs[np.sort(rng.choice(len(pairs), size=64, replace=False))]
                    for i, a in sel:
                        joint = list(bg)
                        joint[int(i)] = int(a)
                        acts.append(joint)
                        which.append([int(i)])
            return acts, which, True
        idx = np.argwhere(bad)
        complete = True
        if len(idx) > 512:
            sel = np.sort(rng.choice(len(idx), size=512, replace=False))
            idx = idx[sel]
            complete = False
        if self.mask_mode == "flat":
            return [int(i[0]) for i in idx], [True] * len(idx), complete
        return [[int(v) for v in i] for i in idx], [True] * len(idx), complete

    # C06: hard constraints of the partial solution, recomputed from raw arrays and the action history.
    # hist = list of Rec (reset first); called after every legal step. None = feasible.
    has_constraints = False

    def constraints(self, hist: List[Any], env: Any, cfg: Dict[str, Any]) -> Optional[Tuple[str, str]]:
        return None

    # C07: physical consistency / conservation. ps/action are None for the reset state.
    has_physical = False

    def physical(self, ps: Any, action: Any, s: Any, ts: Any, env: Any, cfg: Dict[str, Any]) -> Optional[Tuple[str, str]]:
        return None

    # C08: documented objective recomputed from the final state (float64). Returns None when the
    # objective is not defined for this ending (e.g. JobShop not completed), else the expected return.
    has_objective = False

    def objective(self, hist: List[Any], env: Any, cfg: Dict[str, Any]) -> Optional[float]:
        return None

    objective_without_end = False  # objective also defined when the run was cut before a LAST
    sum_agents = False  # multi-agent reward vectors are summed before comparison

    def sparse_twin(self, cfg: Dict[str, Any]) -> Optional[Dict[str, Any]]:
        """Config of the same env with the other (sparse) reward function, for dense == sparse."""
        return None

    def twin_comparable(self, hist: List[Any], env: Any, cfg: Dict[str, Any]) -> bool:
        """Whether dense and sparse returns are documented to agree for this episode ending."""
        return True

    # C09: independent transition model: predict successor fields / reward / done from (ps, action)
    # and compare with what the env returned. None = agrees.
    has_model = False

    def model_step(self, ps: Any, action: Any, s: Any, ts: Any, env: Any, cfg: Dict[str, Any]) -> Optional[Tuple[str, str]]:
        return None

    # C12: recompute the observation from the state returned by the same call. None = faithful.
    has_observer = False

    def observe(self, s: Any, obs: Any, env: Any, cfg: Dict[str, Any]) -> Optional[Tuple[str, str]]:
        return None

    def end_cause(self, ps: Any, action: Any, s: Any, ts: Any, env: Any, cfg: Dict[str, Any]) -> Optional[str]:
        """C11: an episode ended before the time limit - name the documented cause that holds for this
        transition (independently of the env's own done flag), None if there is none, or "unmodelled"."""
        return "unmodelled"

    def events(self, ps: Any, action: Any, s: Any, ts: Any, env: Any, cfg: Dict[str, Any]) -> List[str]:
        """Reach probes: names of the rare / interesting conditions this transition exhibits (ps and action are None
        for the reset state). Only counted (evidence "probes", prefix "ev:"); never used for a verdict."""
        return []

    # ---- policies (omniscient clients); return None to fall back ------------------------------
    def policy_survive(self, s: Any, env: Any, rng: np.random.Generator, legal: Optional[np.ndarray]) -> Any:
        return None

    def policy_complete(self, s: Any, env: Any, rng: np.random.Generator, legal: Optional[np.ndarray]) -> Any:
        return None

    def policy_collide(self, s: Any, env: Any, rng: np.random.Generator, legal: Optional[np.ndarray]) -> Any:
        return None

    def safe_policy(self, name: str, s: Any, env: Any, rng: np.random.Generator, legal: Optional[np.ndarray]) -> Any:
        """Omniscient policies read whatever the environment under test returned; on a changed tree that may be something
        they cannot cope with. A policy failure is never a verdict and never a harness error: the caller falls back."""
        try:
            return getattr(self, "policy_" + name)(s, env, rng, legal)
        except Exception:  # noqa: BLE001
            return None

    # ---- helpers ---------------------------------------------------------------------------
    def pick(self, mask: np.ndarray, rng: Optional[np.random.Generator], how: str = "uniform") -> Tuple[Any, bool]:
        """Choose an action whose mask entry is True. Returns (action, forced) where forced is
        True when some entity had no True entry and index 0 was used instead."""
        mode = self.mask_mode
        mask = np.asarray(mask).astype(bool)
        forced = False
        if mode == "per_agent":
            out = []
            for row in mask:
                idx = np.flatnonzero(row)
                if len(idx) == 0:
                    out.append(0)
                    forced = True
                elif how == "first":
                    out.append(int(idx[0]))
                elif how == "last":
                    out.append(int(idx[-1]))
                else:
                    out.append(int(idx[int(rng.integers(0, len(idx)))]))
            return out, forced
        idx = np.flatnonzero(mask.reshape(-1))
        if len(idx) == 0:
            flat, forced = 0, True
        elif how == "first":
            flat = int(idx[0])
        elif how == "last":
            flat = int(idx[-1])
        else:
            flat = int(idx[int(rng.integers(0, len(idx)))])
        if mode == "flat":
            return flat, forced
        return [int(i) for i in np.unravel_index(flat, mask.shape)], forced

    def action_in_mask(self, action: Any, mask: np.ndarray) -> bool:
        mask = np.asarray(mask).astype(bool)
        if self.mask_mode == "flat":
            return bool(mask[int(action)])
        if self.mask_mode == "per_agent":
            return all(bool(mask[i, int(a)]) for i, a in enumerate(action))
        return bool(mask[tuple(int(a) for a in action)])

    def enumerate_actions(self, env: Any, mask_shape: Tuple[int, ...], base: Any, rng: np.random.Generator
                          ) -> Tuple[np.ndarray, List[Tuple[int, ...]], bool]:
        """All actions of the space as an array plus, for each, the mask index it corresponds to.
        per_agent: one agent varies while the others play ``base``. Returns (actions, idx, complete)."""
        mode = self.mask_mode
        if mode == "flat":
            n = int(mask_shape[0])
            return np.arange(n), [(i,) for i in range(n)], True
        if mode == "joint":
            total = int(np.prod(mask_shape))
            if total <= self.max_enum:
                idx = list(itertools.product(*[range(k) for k in mask_shape]))
                return np.asarray(idx), [tuple(i) for i in idx], True
            flat = np.sort(rng.choice(total, size=512, replace=False))
            idx = [tuple(int(v) for v in np.unravel_index(int(f), mask_shape)) for f in flat]
            return np.asarray(idx), idx, False
        if mode == "per_agent":
            n_agents, n_act = mask_shape
            acts, idx = [], []
            for i in range(n_agents):
                for a in range(n_act):
                    j = list(base)
                    j[i] = a
                    acts.append(j)
                    idx.append((i, a))
            return np.asarray(acts), idx, True
        raise ValueError(mode)


def bfs_path(free: np.ndarray, start: Tuple[int, int], goal_fn: Any) -> Optional[List[Tuple[int, int]]]:
    """4-neighbour BFS on a boolean grid of free cells; returns the cell path start..goal."""
    from collections import deque

    R, C = free.shape
    prev = {start: None}
    dq = deque([start])
    while dq:
        cur = dq.popleft()
        if goal_fn(cur):
            path = []
            while cur is not None:
                path.append(cur)
                cur = prev[cur]
            return path[::-1]
        r, c = cur
        for dr, dc in ((-1, 0), (0, 1), (1, 0), (0, -1)):
            nr, nc = r + dr, c + dc
            if 0 <= nr < R and 0 <= nc < C and free[nr, nc] and (nr, nc) not in prev:
                prev[(nr, nc)] = cur
                dq.append((nr, nc))
    return None
