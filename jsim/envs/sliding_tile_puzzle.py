from jsim.envs.base import Adapter
from jsim.envs._mk import cfg, cross_tl


class A(Adapter):
    name = "SlidingTilePuzzle"
    mask_mode = "flat"

    def configs(self):
        base = [cfg("g5m200", True, g=5, mv=200, tl=None, rew="dense"), cfg("g3m20", True, g=3, mv=20, tl=None, rew="dense"),
                cfg("g2m5", g=2, mv=5, tl=None, rew="dense"), cfg("g4m50sparse", g=4, mv=50, tl=None, rew="sparse"),
                cfg("g3m3", g=3, mv=3, tl=None, rew="dense")]
        return cross_tl(base, [1, 2, 3, 7])

    def build(self, c):
        from jumanji.environments import SlidingTilePuzzle
        from jumanji.environments.logic.sliding_tile_puzzle.generator import RandomWalkGenerator
        from jumanji.environments.logic.sliding_tile_puzzle import reward as R
        g = RandomWalkGenerator(grid_size=c["g"], num_random_moves=c["mv"])
        rf = {"dense": R.DenseRewardFn, "sparse": R.SparseRewardFn}[c["rew"]]()
        kw = {} if c.get("tl") is None else {"time_limit": c["tl"]}
        return SlidingTilePuzzle(generator=g, reward_fn=rf, **kw)

    def time_limit(self, env, c):
        return 500 if c.get("tl") is None else c["tl"]
