"""SlidingTilePuzzle: rules written from docs/environments/sliding_tile_puzzle.md and the class docstring.

N x N grid holding the tiles 1..N*N-1 and the empty tile 0. Actions 0..3 move the *empty tile* up,
right, down, left: it swaps places with the neighbouring tile on that side. A move is legal iff the
empty tile stays inside the grid; an illegal move is ignored. Goal configuration: 1..N*N-1 in reading
order with the empty tile in the last cell. Dense reward = change in the number of correctly placed
tiles (the docs call every array element a tile, the 0 being "the empty tile", so all N*N cells
count); sparse reward = 1 when the puzzle is solved after the move, else 0. The episode ends when
the puzzle is solved or at the time limit (default 500).
"""
from __future__ import annotations

from collections import deque
from typing import Any, Dict, Optional, Tuple

import numpy as np

from jsim.envs._mk import cfg, cross_tl
from jsim.envs.base import Adapter

DELTA = [(-1, 0), (0, 1), (1, 0), (0, -1)]  # up, right, down, left (of the empty tile)
NAMES = ["up", "right", "down", "left"]


def goal(n: int) -> np.ndarray:
    g = np.arange(1, n * n + 1, dtype=np.int64)
    g[-1] = 0
    return g.reshape(n, n)


def correct(p: np.ndarray) -> int:
    p = np.asarray(p)
    return int((p == goal(p.shape[0])).sum())


def solved(p: np.ndarray) -> bool:
    p = np.asarray(p)
    return bool(np.array_equal(p, goal(p.shape[0])))


def blank_of(s: Any) -> Tuple[int, int]:
    e = np.asarray(s.empty_tile_position)
    return int(e[0]), int(e[1])


def apply_move(p: np.ndarray, blank: Tuple[int, int], a: int) -> Tuple[np.ndarray, Tuple[int, int], bool]:
    n = p.shape[0]
    r, c = blank
    nr, nc = r + DELTA[a][0], c + DELTA[a][1]
    if not (0 <= nr < n and 0 <= nc < n):
        return p.copy(), blank, False
    q = p.copy()
    q[r, c], q[nr, nc] = q[nr, nc], q[r, c]
    return q, (nr, nc), True


class A(Adapter):
    name = "SlidingTilePuzzle"
    mask_mode = "flat"
    terminate_on_invalid = False
    has_reaction = True
    has_invalid_effect = True
    has_objective = True
    objective_without_end = True  # the dense reward telescopes at every prefix of an episode
    has_model = True
    has_observer = True

    def __init__(self) -> None:
        self._dist: Dict[int, Dict[bytes, int]] = {}  # policy cache only (distance-to-goal tables), not a rule

    def configs(self):
        base = [cfg("g5m200", True, g=5, mv=200, tl=None, rew="dense"), cfg("g3m20", True, g=3, mv=20, tl=None, rew="dense"),
                cfg("g2m5", g=2, mv=5, tl=None, rew="dense"), cfg("g4m50sparse", g=4, mv=50, tl=None, rew="sparse"),
                cfg("g3m3", g=3, mv=3, tl=None, rew="dense"),
                # sparse reward on a tiny, barely scrambled puzzle: the goal is entered (and, from a solved reset, left) often
                cfg("g2m4sparse", True, g=2, mv=4, tl=None, rew="sparse")]
        return cross_tl(base, [1, 2, 3, 7])

    def build(self, c):
        from jumanji.environments import SlidingTilePuzzle
        from jumanji.environments.logic.sliding_tile_puzzle.generator import RandomWalkGenerator
        from jumanji.environments.logic.sliding_tile_puzzle import reward as R
        g = RandomWalkGenerator(grid_size=c["g"], num_random_moves=c["mv"])
        rf = {"dense": R.DenseRewardFn, "sparse": R.SparseRewardFn}[c["rew"]]()
        kw = {} if c.get("tl") is None else {"time_limit": c["tl"]}
        return SlidingTilePuzzle(generator=g, reward_fn=rf, **kw)

    def time_limit(self, env, c):
        return 500 if c.get("tl") is None else c["tl"]

    # ---- C04 -------------------------------------------------------------------------------------
    def legal(self, s: Any, env: Any) -> np.ndarray:
        n = np.asarray(s.puzzle).shape[0]
        r, c = blank_of(s)
        return np.asarray([0 <= r + dr < n and 0 <= c + dc < n for dr, dc in DELTA], dtype=bool)

    def describe(self, s, env, idx):
        return f"empty tile at {blank_of(s)}, move {NAMES[int(idx[0])]}, grid {np.asarray(s.puzzle).shape}"

    def reaction_invalid(self, ps, action, agent, s, ts, env, cfg):
        # ignore-invalid env: treated as invalid iff the empty tile stayed where it was and no tile moved. A move that is
        # carried out always displaces the empty tile.
        same_blank = blank_of(s) == blank_of(ps)
        same_puzzle = bool(np.array_equal(np.asarray(s.puzzle), np.asarray(ps.puzzle)))
        if same_blank != same_puzzle:
            return None  # inconsistent successor: not a statement about validity (C07-like; C09 reports it)
        return same_blank

    # ---- C05 -------------------------------------------------------------------------------------
    def invalid_effect(self, ps, action, illegal, s, ts, env, cfg):
        a = int(action)
        pp, np_ = np.asarray(ps.puzzle), np.asarray(s.puzzle)
        if blank_of(s) != blank_of(ps):
            return ("invalid_move_moved_blank", f"{NAMES[a]} leaves the grid from {blank_of(ps)} but empty_tile_position became {blank_of(s)}")
        if not np.array_equal(pp, np_):
            d = np.argwhere(pp != np_)[0].tolist()
            return ("invalid_move_changed_puzzle", f"{NAMES[a]} from {blank_of(ps)} is off-grid but cell {d} went {int(pp[tuple(d)])} -> {int(np_[tuple(d)])}")
        tl = self.time_limit(env, cfg)
        at_limit = int(ps.step_count) + 1 >= tl
        # A reset state can already be the goal (random walk that returns home). The documented end "the puzzle is solved"
        # then holds after an ignored move as well, so nothing is asserted about LAST in that case.
        if not at_limit and not solved(pp) and int(ts.step_type) == 2:
            return ("invalid_move_terminal", f"LAST after an ignored move at step {int(ps.step_count) + 1} < time_limit {tl}, puzzle unsolved")
        if at_limit and int(ts.step_type) != 2:
            return ("no_last_at_time_limit", f"step {int(ps.step_count) + 1} == time_limit {tl} but step_type {int(ts.step_type)}")
        if cfg["rew"] == "dense" and float(ts.reward) != 0.0:
            return ("invalid_move_reward", f"dense reward {float(ts.reward)} although no tile changed place")
        if cfg["rew"] == "sparse" and not solved(pp) and float(ts.reward) != 0.0:
            return ("invalid_move_reward", f"sparse reward {float(ts.reward)} although the puzzle is unsolved")
        return None

    # ---- C08 -------------------------------------------------------------------------------------
    def objective(self, hist, env, cfg):
        if cfg["rew"] != "dense":
            return None  # the sparse reward (solved indicator) is a different objective; DESIGN §4 C08 excludes it
        return float(correct(hist[-1].state.puzzle) - correct(hist[0].state.puzzle))

    # ---- C09 -------------------------------------------------------------------------------------
    def model_step(self, ps, action, s, ts, env, cfg):
        a = int(action)
        pp = np.asarray(ps.puzzle)
        want_p, want_b, moved = apply_move(pp, blank_of(ps), a)
        got_p = np.asarray(s.puzzle)
        if not np.array_equal(got_p, want_p):
            d = np.argwhere(got_p != want_p)[0].tolist()
            return ("puzzle", f"{NAMES[a]} with the empty tile at {blank_of(ps)} ({'legal' if moved else 'off-grid'}): cell {d} is "
                    f"{int(got_p[tuple(d)])}, the rules give {int(want_p[tuple(d)])}")
        if blank_of(s) != want_b:
            return ("empty_tile_position", f"{NAMES[a]} from {blank_of(ps)}: empty_tile_position {blank_of(s)} expected {want_b}")
        sc = int(ps.step_count) + 1
        if int(s.step_count) != sc:
            return ("step_count", f"step_count {int(s.step_count)} expected {sc}")
        is_solved = solved(want_p)
        if cfg["rew"] == "dense":
            want_r = float(correct(want_p) - correct(pp))
        else:
            want_r = 1.0 if is_solved else 0.0
        if not np.isclose(float(ts.reward), want_r, rtol=1e-5, atol=1e-6):
            return ("reward", f"{cfg['rew']} reward {float(ts.reward)} expected {want_r} ({NAMES[a]} from {blank_of(ps)})")
        done = is_solved or sc >= self.time_limit(env, cfg)
        if (int(ts.step_type) == 2) != done:
            return ("termination", f"step_type {int(ts.step_type)} but the rules say done={done} (solved={is_solved}, step {sc}/{self.time_limit(env, cfg)})")
        want_disc = 0.0 if done else 1.0
        if float(ts.discount) != want_disc:
            return ("discount", f"discount {float(ts.discount)} expected {want_disc}")
        return None

    # ---- C11 -------------------------------------------------------------------------------------
    def end_cause(self, ps, action, s, ts, env, cfg):
        return "solved" if solved(np.asarray(s.puzzle)) else None

    # ---- reach probes ---------------------------------------------------------------------------
    def events(self, ps, action, s, ts, env, cfg):
        p = np.asarray(s.puzzle)
        n = p.shape[0]
        if ps is None:
            ev = ["reset_solved"] if solved(p) else []
            if blank_of(s) == (n - 1, n - 1):
                ev.append("reset_blank_in_goal_cell")
            if correct(p) == 0:
                ev.append("reset_no_tile_in_place")
            return ev
        a = int(action)
        pp = np.asarray(ps.puzzle)
        r, c = blank_of(ps)
        was_solved = solved(pp)
        if not self.legal(ps, env)[a]:
            ev = ["move_blocked_by_border"]
            if r in (0, n - 1) and c in (0, n - 1):
                ev.append("blocked_move_from_corner")
            if was_solved:
                ev.append("blocked_move_on_solved_puzzle")
            return ev
        ev = ["tile_moved"]
        d = correct(p) - correct(pp)
        if d > 0:
            ev.append("tile_moved_into_place")
        elif d < 0:
            ev.append("tile_moved_out_of_place")
        if abs(d) == 2:
            ev.append("correct_count_changed_by_2")  # the moved tile and the empty tile change status together
        if was_solved:
            ev.append("solved_puzzle_unsolved_by_move")
        if solved(p):
            ev.append("ended_solved")
            if int(s.step_count) >= self.time_limit(env, cfg):
                ev.append("solved_at_time_limit")
        return ev

    # ---- C12 -------------------------------------------------------------------------------------
    def observe(self, s, obs, env, cfg):
        sp, op = np.asarray(s.puzzle), np.asarray(obs.puzzle)
        if sp.shape != op.shape or not np.array_equal(sp, op):
            return ("puzzle", "obs.puzzle != state.puzzle")
        if not np.array_equal(np.asarray(obs.empty_tile_position), np.asarray(s.empty_tile_position)):
            return ("empty_tile_position", f"obs {np.asarray(obs.empty_tile_position).tolist()} vs state {np.asarray(s.empty_tile_position).tolist()}")
        r, c = blank_of(s)
        n = sp.shape[0]
        if 0 <= r < n and 0 <= c < n and sp[r, c] != 0:
            return ("empty_tile_position_vs_puzzle", f"empty_tile_position {(r, c)} but that cell holds tile {int(sp[r, c])}")
        if int(obs.step_count) != int(s.step_count):
            return ("step_count", f"obs {int(obs.step_count)} vs state {int(s.step_count)}")
        want = self.legal(s, env)  # the state carries no mask; the documented one is "empty tile stays inside the grid"
        if not np.array_equal(np.asarray(obs.action_mask).astype(bool), want):
            return ("action_mask", f"obs.action_mask {np.asarray(obs.action_mask).tolist()} but the empty tile at {(r, c)} allows {want.tolist()}")
        return None

    # ---- policies --------------------------------------------------------------------------------
    def policy_survive(self, s, env, rng, legal):
        """Wander without ever finishing the puzzle (at most one neighbour of a configuration is the goal)."""
        if legal is None or not legal.any():
            return None
        p = np.asarray(s.puzzle)
        for a in [int(x) for x in rng.permutation(4)]:
            if legal[a]:
                q, _, _ = apply_move(p, blank_of(s), a)
                if not solved(q):
                    return a
        return None

    def _table(self, n: int) -> Dict[bytes, int]:
        """Distances to the goal by breadth-first search from the goal, capped at 200k configurations
        (complete for 2x2 and 3x3; a ball of small scrambles for larger grids)."""
        if n not in self._dist:
            g = goal(n).astype(np.int8)
            dist = {g.tobytes(): 0}
            dq = deque([(g, (n - 1, n - 1))])
            while dq and len(dist) < 200_000:
                p, b = dq.popleft()
                d = dist[p.tobytes()]
                for a in range(4):
                    q, nb, ok = apply_move(p, b, a)
                    if ok and q.tobytes() not in dist:
                        dist[q.tobytes()] = d + 1
                        dq.append((q, nb))
            self._dist[n] = dist
        return self._dist[n]

    def policy_complete(self, s, env, rng, legal):
        if legal is None or not legal.any():
            return None
        p = np.asarray(s.puzzle).astype(np.int8)
        tab = self._table(p.shape[0])
        here = tab.get(p.tobytes())
        if here is None:
            return None  # too far from the goal for the table: fall back to a legal move
        if here == 0:  # already solved (possible at reset): any legal move
            return None
        for a in [int(x) for x in rng.permutation(4)]:
            if legal[a]:
                q, _, _ = apply_move(p, blank_of(s), a)
                if tab.get(q.tobytes()) == here - 1:
                    return a
        return None
