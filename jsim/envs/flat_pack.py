"""FlatPack: rules written from docs/environments/flat_pack.md, the FlatPack class docstring and reward.py docstrings.

A grid of num_rows x num_cols cells (0 = empty, n = covered by block number n) and num_blocks blocks, each a 3x3 array
whose non-zero cells (all equal to the block's number) are its shape. An action [block, rotation, row, col] rotates the
block by `rotation` quarter turns (direction learnt from utils.rotate_block: clockwise) and puts the top-left corner
of the rotated 3x3 array on cell (row, col); row <= num_rows-3 and col <= num_cols-3, so the array is always inside
the grid. It is legal iff the block has not been placed yet and none of its non-zero cells lands on a covered cell.
An illegal action is ignored (nothing placed, reward 0). The episode ends when the grid is filled or after num_blocks
steps. Reward: cell-dense = cells of the placed block / cells of the grid; block-dense = 1 / num_blocks per placed block.
"""
from __future__ import annotations

from typing import Any, Dict, List, Optional, Tuple

import numpy as np

from jsim.envs._mk import cfg
from jsim.envs.base import Adapter


def _rot(block: np.ndarray, k: int) -> np.ndarray:
    """k clockwise quarter turns of a 3x3 array: the cell at (i, j) comes from (2 - j, i)."""
    out = np.asarray(block)
    for _ in range(int(k) % 4):
        out = np.array([[out[2 - j][i] for j in range(3)] for i in range(3)], dtype=out.dtype)
    return out


def _stamp(shape: Tuple[int, int], block: np.ndarray, r: int, c: int) -> np.ndarray:
    g = np.zeros(shape, dtype=np.int64)
    g[r:r + 3, c:c + 3] = block
    return g


class A(Adapter):
    name = "FlatPack"
    run_scale = 1
    mask_mode = "joint"
    fork_every = 1  # episodes last num_blocks steps and the reset state has no illegal action: fork at every visited state
    has_invalid_effect = True
    has_constraints = True
    has_objective = True
    has_model = True
    has_observer = True

    def __init__(self) -> None:
        self._plans: Dict[bytes, List[List[int]]] = {}

    def configs(self):
        return [
            # quick: the non-square grid carries the cell-dense reward (its normaliser is the grid area, rows x columns),
            # the square one the block-dense reward; the other combinations are in the thorough menu
            cfg("r2c2block", True, gen="random", rb=2, cb=2, rew="block"),
            cfg("r2c3", True, gen="random", rb=2, cb=3, rew="cell"),
            cfg("r5c5", gen="random", rb=5, cb=5, rew="cell"),
            cfg("r3c3", gen="random", rb=3, cb=3, rew="cell"),
            cfg("toyrot", c02=True, gen="toyrot", rb=2, cb=2, rew="block"),
            cfg("toynorot", gen="toynorot", rb=2, cb=2, rew="cell"),
            cfg("r3c2", gen="random", rb=3, cb=2, rew="cell"),
            cfg("r2c2", gen="random", rb=2, cb=2, rew="cell"),
            cfg("r2c3block", gen="random", rb=2, cb=3, rew="block"),
        ]

    def build(self, c):
        from jumanji.environments import FlatPack
        from jumanji.environments.packing.flat_pack import generator as G
        from jumanji.environments.packing.flat_pack import reward as R
        if c["gen"] == "random":
            g = G.RandomFlatPackGenerator(num_row_blocks=c["rb"], num_col_blocks=c["cb"])
        elif c["gen"] == "toyrot":
            g = G.ToyFlatPackGeneratorWithRotation()
        else:
            g = G.ToyFlatPackGeneratorNoRotation()
        rf = R.CellDenseReward() if c["rew"] == "cell" else R.BlockDenseReward()
        return FlatPack(generator=g, reward_fn=rf)

    def horizon(self, env, c):
        return c["rb"] * c["cb"]

    # ---- rules ---------------------------------------------------------------------------------
    def legal(self, s: Any, env: Any) -> np.ndarray:
        grid = np.asarray(s.grid)
        blocks = np.asarray(s.blocks)
        placed = np.asarray(s.placed_blocks).astype(bool)
        R, C = grid.shape
        nb = blocks.shape[0]
        covered = (grid != 0).astype(np.int64)
        win = np.lib.stride_tricks.sliding_window_view(covered, (3, 3))  # (R-2, C-2, 3, 3): window with top-left (r, c)
        shapes = np.zeros((nb, 4, 3, 3), dtype=np.int64)
        for b in range(nb):
            for k in range(4):
                shapes[b, k] = _rot(blocks[b], k) != 0
        clash = np.tensordot(shapes, win, axes=([2, 3], [2, 3]))  # (nb, 4, R-2, C-2): block cells landing on covered cells
        return (clash == 0) & ~placed[:, None, None, None]

    def describe(self, s, env, idx):
        b, k, r, c = idx
        return (f"block {b} placed={bool(np.asarray(s.placed_blocks)[b])} rotated {k}x =\n{_rot(np.asarray(s.blocks)[b], k)}\nat ({r},{c}) on grid\n"
                f"{np.asarray(s.grid)}")

    @staticmethod
    def _nb(s: Any) -> int:
        return int(np.asarray(s.blocks).shape[0])

    def _reward_for(self, s: Any, shape_cells: int, cfg: Dict[str, Any]) -> float:
        g = np.asarray(s.grid)
        return shape_cells / float(g.size) if cfg["rew"] == "cell" else 1.0 / self._nb(s)

    # ---- C05 -------------------------------------------------------------------------------------
    def invalid_effect(self, ps, action, illegal, s, ts, env, cfg):
        if not np.array_equal(np.asarray(s.grid), np.asarray(ps.grid)):
            return ("illegal_move_changed_grid", f"grid changed:\n{np.asarray(ps.grid)}\n->\n{np.asarray(s.grid)}")
        if not np.array_equal(np.asarray(s.placed_blocks), np.asarray(ps.placed_blocks)):
            return ("illegal_move_placed_block", f"placed_blocks {np.asarray(ps.placed_blocks).tolist()} -> {np.asarray(s.placed_blocks).tolist()}")
        if not np.array_equal(np.asarray(s.blocks), np.asarray(ps.blocks)):
            return ("illegal_move_changed_blocks", "the set of blocks changed")
        if float(ts.reward) != 0.0:
            return ("illegal_move_rewarded", f"reward {float(ts.reward)} although nothing was placed")
        sc = int(ps.step_count) + 1
        if int(s.step_count) != sc:
            return ("step_count", f"step_count {int(s.step_count)} expected {sc}")
        # the episode continues - except that every FlatPack episode lasts exactly num_blocks steps
        want_last = sc >= self._nb(ps)
        if (int(ts.step_type) == 2) != want_last:
            return ("illegal_move_termination", f"step_type {int(ts.step_type)} at step {sc} of {self._nb(ps)} after an ignored move")
        return None

    # ---- C06 -------------------------------------------------------------------------------------
    def constraints(self, hist, env, cfg):
        s = hist[-1].state
        grid = np.asarray(s.grid)
        blocks = np.asarray(hist[0].state.blocks)
        nb = blocks.shape[0]
        mine = np.zeros(grid.shape, dtype=np.int64)
        done: Dict[int, int] = {}
        for rec in hist[1:]:
            b, k, r, c = (int(v) for v in rec.action)
            if b in done:
                return ("block_placed_twice", f"block {b} was placed at step {done[b]} and again at step {rec.t}")
            g = _stamp(grid.shape, _rot(blocks[b], k), r, c)
            if ((mine != 0) & (g != 0)).any():
                cell = np.argwhere((mine != 0) & (g != 0))[0].tolist()
                return ("cell_covered_twice", f"step {rec.t}: block {b} rotated {k}x at ({r},{c}) covers cell {cell} already covered by block value "
                        f"{int(mine[tuple(cell)])}")
            mine += g
            done[b] = rec.t
        if not np.array_equal(np.asarray(s.blocks), blocks):
            return ("blocks_changed", "state.blocks differs from the blocks of the reset state")
        if not np.array_equal(grid, mine):
            cell = np.argwhere(grid != mine)[0].tolist()
            return ("grid_differs_from_history", f"cell {cell} holds {int(grid[tuple(cell)])} but the placements of the action history give {int(mine[tuple(cell)])}")
        placed = np.flatnonzero(np.asarray(s.placed_blocks).astype(bool)).tolist()
        if placed != sorted(done):
            return ("placed_set_differs_from_history", f"placed_blocks {placed} but the actions placed {sorted(done)}")
        if len(hist) > 1 and int(hist[-1].ts.step_type) == 2 and len(done) == nb and not (grid != 0).all():
            return ("complete_but_cells_uncovered", f"all {nb} blocks placed but cells {np.argwhere(grid == 0)[:4].tolist()} are empty")
        return None

    # ---- C08 -------------------------------------------------------------------------------------
    def objective(self, hist, env, cfg):
        s = hist[-1].state
        if cfg["rew"] == "cell":
            g = np.asarray(s.grid)
            return float(np.count_nonzero(g)) / float(g.size)
        return float(np.count_nonzero(np.asarray(s.placed_blocks))) / float(self._nb(s))

    # ---- C09 -------------------------------------------------------------------------------------
    def model_step(self, ps, action, s, ts, env, cfg):
        b, k, r, c = (int(v) for v in action)
        grid = np.asarray(ps.grid).astype(np.int64)
        blocks = np.asarray(ps.blocks)
        placed = np.asarray(ps.placed_blocks).astype(bool).copy()
        nb = blocks.shape[0]
        piece = _rot(blocks[b], k)
        window = grid[r:r + 3, c:c + 3] if (r >= 0 and c >= 0) else grid[:0, :0]
        # a block whose 3x3 window does not lie inside the grid does not fit: an illegal placement, like an overlap
        ok = (not placed[b]) and window.shape == (3, 3) and not ((window != 0) & (piece != 0)).any()
        if ok:
            grid = grid + _stamp(grid.shape, piece, r, c)
            placed[b] = True
            reward = self._reward_for(ps, int(np.count_nonzero(piece)), cfg)
        else:
            reward = 0.0
        sc = int(ps.step_count) + 1
        done = bool((grid != 0).all()) or sc >= nb
        if not np.array_equal(np.asarray(s.grid), grid):
            cell = np.argwhere(np.asarray(s.grid) != grid)[0].tolist()
            return ("grid", f"{'legal' if ok else 'illegal'} action: cell {cell} is {int(np.asarray(s.grid)[tuple(cell)])}, the rules give {int(grid[tuple(cell)])}")
        if not np.array_equal(np.asarray(s.placed_blocks).astype(bool), placed):
            return ("placed_blocks", f"placed_blocks {np.asarray(s.placed_blocks).tolist()} expected {placed.tolist()}")
        if not np.array_equal(np.asarray(s.blocks), blocks):
            return ("blocks", "blocks changed")
        if int(s.num_blocks) != int(ps.num_blocks):
            return ("num_blocks", f"num_blocks {int(s.num_blocks)} was {int(ps.num_blocks)}")
        if int(s.step_count) != sc:
            return ("step_count", f"step_count {int(s.step_count)} expected {sc}")
        if not np.isclose(float(ts.reward), reward, rtol=1e-5, atol=1e-6):
            return ("reward", f"reward {float(ts.reward)} expected {reward} ({'legal' if ok else 'illegal'} action, {cfg['rew']} reward)")
        if (int(ts.step_type) == 2) != done:
            return ("termination", f"step_type {int(ts.step_type)} but the rules say done={done} (step {sc}/{nb})")
        return None

    # ---- reach probes ---------------------------------------------------------------------------
    def events(self, ps, action, s, ts, env, cfg):
        grid = np.asarray(s.grid)
        if ps is None:
            ev = [f"reset_gen_{cfg.get('gen', 'unknown')}"]
            if grid.shape[0] != grid.shape[1]:
                ev.append("reset_nonsquare")
            if not self.legal(s, env).any(axis=(1, 2, 3)).all():
                ev.append("reset_block_without_legal_placement")
            return ev
        b, k, r, c = (int(v) for v in action)
        pg = np.asarray(ps.grid)
        placed = np.asarray(ps.placed_blocks).astype(bool)
        piece = _rot(np.asarray(ps.blocks)[b], k)
        overlap = bool(((pg[r:r + 3, c:c + 3] != 0) & (piece != 0)).any())
        last = int(ts.step_type) == 2
        covered = bool((grid != 0).all())
        if placed[b] or overlap:
            ev = ["illegal_action_ignored", "illegal_block_already_placed" if placed[b] else "illegal_overlap"]
            if last:
                ev.append("ended_at_step_limit_after_ignored_action")
        else:
            ev = ["block_placed"]
            if k % 4 != 0 and not np.array_equal(piece, np.asarray(ps.blocks)[b]):
                ev.append("rotated_placement")
            if k % 4 != 0 and np.array_equal(piece, np.asarray(ps.blocks)[b]):
                ev.append("rotation_of_symmetric_block")
            if int(np.count_nonzero(piece)) == 9:
                ev.append("full_3x3_block_placed")
            if bool(np.asarray(s.placed_blocks).astype(bool).all()):
                ev.append("all_blocks_placed")
            if covered:
                ev.append("board_completely_covered")
        if last and not covered:
            ev.append("ended_at_step_limit_grid_not_covered")
        if not last and not self.legal(s, env).any():
            ev.append("stuck_no_legal_placement_left")
        return ev

    # ---- C12 -------------------------------------------------------------------------------------
    def observe(self, s, obs, env, cfg):
        for f_obs, f_state in (("grid", "grid"), ("blocks", "blocks"), ("action_mask", "action_mask")):
            a, b = np.asarray(getattr(obs, f_obs)), np.asarray(getattr(s, f_state))
            if a.shape != b.shape or not np.array_equal(a, b):
                where = np.argwhere(a != b)[0].tolist() if a.shape == b.shape else [a.shape, b.shape]
                return (f_obs, f"observation.{f_obs} differs from state.{f_state} at {where}")
        return None

    # ---- policies ----------------------------------------------------------------------------------
    def _solve(self, grid: np.ndarray, blocks: np.ndarray, placed: np.ndarray, ncb: int) -> Optional[List[List[int]]]:
        """Depth-first search for a full cover in which block number n sits in the 3x3 region it was cut from
        (rows 2i..2i+2, cols 2j..2j+2 with (i, j) = divmod(n - 1, num_col_blocks))."""
        R, C = grid.shape
        nrb = (R - 1) // 2
        numbers = [int(blocks[b].max()) for b in range(len(blocks))]
        todo = sorted((b for b in range(len(blocks)) if not placed[b]), key=lambda b: numbers[b])
        variants: Dict[int, List[Tuple[int, int, int, np.ndarray]]] = {}
        for b in todo:
            i, j = divmod(numbers[b] - 1, ncb)
            if not (0 <= i < nrb and 0 <= j < ncb):
                return None
            region = np.zeros((R, C), bool)
            region[2 * i:2 * i + 3, 2 * j:2 * j + 3] = True
            out = []
            seen = set()
            for k in range(4):
                piece = _rot(blocks[b], k) != 0
                for r in range(max(0, 2 * i - 2), min(R - 3, 2 * i + 2) + 1):
                    for c in range(max(0, 2 * j - 2), min(C - 3, 2 * j + 2) + 1):
                        cells = _stamp((R, C), piece, r, c).astype(bool)
                        if (cells & ~region).any() or cells.tobytes() in seen:
                            continue
                        seen.add(cells.tobytes())
                        out.append((k, r, c, cells))
            variants[b] = out
        nodes = [0]

        def rec(n: int, occ: np.ndarray) -> Optional[List[List[int]]]:
            if n == len(todo):
                return [] if occ.all() else None
            nodes[0] += 1
            if nodes[0] > 20000:
                return None
            b = todo[n]
            i, j = divmod(numbers[b] - 1, ncb)
            r_hi = 2 * i + 2 if i < nrb - 1 else R
            c_hi = 2 * j + 2 if j < ncb - 1 else C
            for k, r, c, cells in variants[b]:
                if (occ & cells).any():
                    continue
                occ2 = occ | cells
                if not occ2[2 * i:r_hi, 2 * j:c_hi].all():  # only blocks numbered <= n can reach these cells
                    continue
                rest = rec(n + 1, occ2)
                if rest is not None:
                    return [[b, k, r, c]] + rest
            return None

        return rec(0, grid != 0)

    def policy_complete(self, s, env, rng, legal):
        """Follow a full cover found by search (every block back into the region it was cut from)."""
        if legal is None or not legal.any():
            return None
        grid = np.asarray(s.grid).astype(np.int64)
        blocks = np.asarray(s.blocks)
        key = blocks.tobytes() + grid.tobytes()
        plan = self._plans.get(key)
        if plan is None:
            if len(self._plans) > 256:
                self._plans.clear()
            plan = self._solve(grid, blocks, np.asarray(s.placed_blocks).astype(bool), (grid.shape[1] - 1) // 2) or []
            g = grid.copy()
            for n, (b, k, r, c) in enumerate(plan):  # remember the continuation for the states along the plan
                self._plans[blocks.tobytes() + g.tobytes()] = plan[n:]
                g = g + _stamp(g.shape, _rot(blocks[b], k), r, c)
            self._plans.setdefault(key, plan)
        if not plan:
            return None
        a = plan[0]
        return a if legal[tuple(a)] else None

    # episodes have a fixed length; "staying alive" here means not running into a position without legal moves
    policy_survive = policy_complete
