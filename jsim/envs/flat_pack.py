from jsim.envs.base import Adapter
from jsim.envs._mk import cfg


class A(Adapter):
    name = "FlatPack"
    mask_mode = "joint"
    fork_every = 4

    def configs(self):
        return [
            cfg("r2c2", True, gen="random", rb=2, cb=2, rew="cell"),
            cfg("r2c3block", True, gen="random", rb=2, cb=3, rew="block"),
            cfg("r5c5", gen="random", rb=5, cb=5, rew="cell"),
            cfg("r3c3", gen="random", rb=3, cb=3, rew="cell"),
            cfg("toyrot", gen="toyrot", rb=2, cb=2, rew="block"),
            cfg("toynorot", gen="toynorot", rb=2, cb=2, rew="cell"),
            cfg("r3c2", gen="random", rb=3, cb=2, rew="block"),
        ]

    def build(self, c):
        from jumanji.environments import FlatPack
        from jumanji.environments.packing.flat_pack import generator as G
        from jumanji.environments.packing.flat_pack import reward as R
        if c["gen"] == "random":
            g = G.RandomFlatPackGenerator(num_row_blocks=c["rb"], num_col_blocks=c["cb"])
        elif c["gen"] == "toyrot":
            g = G.ToyFlatPackGeneratorWithRotation()
        else:
            g = G.ToyFlatPackGeneratorNoRotation()
        rf = R.CellDenseReward() if c["rew"] == "cell" else R.BlockDenseReward()
        return FlatPack(generator=g, reward_fn=rf)

    def horizon(self, env, c):
        return c["rb"] * c["cb"]
