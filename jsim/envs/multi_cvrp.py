from jsim.envs.base import Adapter
from jsim.envs._mk import cfg


class A(Adapter):
    name = "MultiCVRP"
    mask_mode = "per_agent"
    noop = 0

    def configs(self):
        return [cfg("c20v2", True, n=20, v=2, rew="dense"), cfg("c6v3sparse", True, n=6, v=3, rew="sparse"), cfg("c9v1", n=9, v=1, rew="dense")]

    def build(self, c):
        from jumanji.environments import MultiCVRP
        from jumanji.environments.routing.multi_cvrp import generator as G
        from jumanji.environments.routing.multi_cvrp import reward as R
        g = G.UniformRandomGenerator(num_customers=c["n"], num_vehicles=c["v"])
        rf = R.DenseReward if c["rew"] == "dense" else R.SparseReward
        return MultiCVRP(generator=g, reward_fn=rf(c["v"], c["n"], g._map_max))

    def horizon(self, env, c):
        return 2 * c["n"]

    def inspec_action(self, env, rng):
        # the documented range is [0, num_customers]; the spec's extra value num_customers+1 is avoided
        return [int(rng.integers(0, env._num_customers + 1)) for _ in range(env._num_vehicles)]
