"""MultiCVRP: rules written from docs/environments/multi_cvrp.md and the docstrings of types.py.

num_customers customers (indices 1..num_customers) with integer demands plus the depot (index 0, demand 0);
num_vehicles vehicles, all starting at the depot with full capacity. Each vehicle's action is the index of
the next node to visit, 0 = depot. `nodes.demands` holds the *remaining* demand (0 once collected),
`vehicles.capacities` what a vehicle can still add before it must return to the depot (restored there).
Per vehicle: the depot is always a possible action; a customer is possible iff it still has demand and the
vehicle has enough capacity for it. The docs do not say what happens when an impossible customer is chosen
or when two vehicles choose the same customer in one step (the implementation sends the vehicle(s) to the
depot), so nothing is asserted about those cases beyond "the customer was not visited". The episode ends when
all demand is collected and every vehicle is back at the depot, or at the step limit (2*num_customers steps),
where both reward functions hand out a separately documented penalty.
"""
from __future__ import annotations

from typing import Any, List, Optional

import numpy as np

from jsim.envs._mk import cfg
from jsim.envs.base import Adapter

DEPOT = 0


class A(Adapter):
    name = "MultiCVRP"
    run_scale = 1
    mask_mode = "per_agent"
    noop = 0
    has_reaction = True
    has_constraints = True
    has_observer = True

    def configs(self):
        # the pinned generator only accepts num_customers in {6, 20, 50, 100, 150} and 2 or 3 vehicles for 6 / 20
        return [cfg("c20v2", True, n=20, v=2, rew="dense"), cfg("c6v3sparse", True, n=6, v=3, rew="sparse"), cfg("c6v2", n=6, v=2, rew="dense"),
                cfg("c20v3sparse", n=20, v=3, rew="sparse")]

    def build(self, c):
        from jumanji.environments import MultiCVRP
        from jumanji.environments.routing.multi_cvrp import generator as G
        from jumanji.environments.routing.multi_cvrp import reward as R
        g = G.UniformRandomGenerator(num_customers=c["n"], num_vehicles=c["v"])
        rf = R.DenseReward if c["rew"] == "dense" else R.SparseReward
        return MultiCVRP(generator=g, reward_fn=rf(c["v"], c["n"], g._map_max))

    def horizon(self, env, c):
        return 2 * c["n"]

    def inspec_action(self, env, rng):
        # the documented range is [0, num_customers]; the spec's extra value num_customers+1 is avoided
        return [int(rng.integers(0, env._num_customers + 1)) for _ in range(env._num_vehicles)]

    # ---- rules ---------------------------------------------------------------------------------
    def legal(self, s: Any, env: Any) -> np.ndarray:
        dem = np.asarray(s.nodes.demands).astype(np.int64)  # remaining demand per node
        cap = np.asarray(s.vehicles.capacities).astype(np.int64)  # remaining capacity per vehicle
        out = (dem[None, :] > 0) & (dem[None, :] <= cap[:, None])
        out[:, DEPOT] = True
        return out

    def describe(self, s, env, idx):
        v, a = int(idx[0]), int(idx[1])
        return (f"vehicle {v} (at node {int(np.asarray(s.vehicles.positions)[v])}, remaining capacity {int(np.asarray(s.vehicles.capacities)[v])}) -> node {a} "
                f"(remaining demand {int(np.asarray(s.nodes.demands)[a])})")

    # ---- C04 (b) -------------------------------------------------------------------------------
    def reaction_invalid(self, ps, action, agent, s, ts, env, cfg):
        # Only vehicle `agent` varies, the others go to the depot, so no two vehicles contend for a customer.
        # "An action is the index of the next node to visit": the move was accepted iff the vehicle is now at
        # that customer. The depot is always possible and looks the same as a rejected move: not judged.
        a = int(action[agent])
        if a == DEPOT:
            return None
        return int(np.asarray(s.vehicles.positions)[agent]) != a

    # ---- C06 -----------------------------------------------------------------------------------
    def constraints(self, hist, env, cfg):
        n, V = cfg["n"], cfg["v"]
        s0, s = hist[0].state, hist[-1].state
        dem0 = np.asarray(s0.nodes.demands).astype(np.int64)
        cap0 = np.asarray(s0.vehicles.capacities).astype(np.int64)  # full capacity of each vehicle
        steps = [r for r in hist[1:] if not r.post_terminal]
        # Where each vehicle really went comes from the recorded positions (the docs do not say which vehicle
        # wins a contested customer); it is cross-checked with the actions: a vehicle is at the node it
        # asked for or at the depot.
        load = np.zeros(V, dtype=np.int64)
        served_by = {}
        for t, r in enumerate(steps, start=1):
            pos = np.asarray(r.state.vehicles.positions).astype(np.int64)
            act = [int(a) for a in r.action]
            for v in range(V):
                p = int(pos[v])
                if p != act[v] and p != DEPOT:
                    return ("vehicle_not_where_it_was_sent", f"step {t}: vehicle {v} chose node {act[v]} but is at node {p}")
                if p == DEPOT:
                    load[v] = 0
                    continue
                if p in served_by:
                    return ("customer_served_twice", f"step {t}: vehicle {v} serves customer {p}, already served by vehicle {served_by[p][0]} at step {served_by[p][1]}")
                served_by[p] = (v, t)
                load[v] += int(dem0[p])
                if load[v] > cap0[v]:
                    return ("load_exceeds_capacity", f"step {t}: vehicle {v} carries {int(load[v])} since its last depot visit after collecting customer {p} "
                            f"(demand {int(dem0[p])}); capacity {int(cap0[v])}")
        # the state must describe exactly this partial solution
        want_dem = dem0.copy()
        for p in served_by:
            want_dem[p] = 0
        dem = np.asarray(s.nodes.demands).astype(np.int64)
        if not np.array_equal(dem, want_dem):
            i = int(np.flatnonzero(dem != want_dem)[0])
            return ("remaining_demand_differs_from_history", f"node {i}: remaining demand {int(dem[i])} but initial demand {int(dem0[i])} and served={i in served_by}")
        cap = np.asarray(s.vehicles.capacities).astype(np.int64)
        if not np.array_equal(cap, cap0 - load) or (cap < 0).any():
            return ("capacity_differs_from_history", f"remaining capacities {cap.tolist()} but full capacities {cap0.tolist()} minus loads {load.tolist()}")
        if not np.array_equal(np.asarray(s.nodes.coordinates), np.asarray(s0.nodes.coordinates)):
            return ("instance_changed", "node coordinates differ from those of the reset state")
        if steps and int(hist[-1].ts.step_type) == 2 and len(steps) < self.horizon(env, cfg):
            # ended before the step limit: the only other documented ending is completion
            left = [int(i) for i in np.flatnonzero(want_dem > 0)]
            if left:
                return ("ended_with_unserved_customers", f"episode ended after {len(steps)} steps (< step limit) with customers {left} unserved")
            pos = np.asarray(s.vehicles.positions)
            if (pos != DEPOT).any():
                return ("ended_away_from_depot", f"episode ended after {len(steps)} steps (< step limit) with vehicles at {pos.tolist()}")
        return None

    # ---- C08 -----------------------------------------------------------------------------------
    def sparse_twin(self, c):
        d = dict(c)
        d["rew"] = "sparse" if c["rew"] == "dense" else "dense"
        d["id"] = f"{c['id']}~{d['rew']}"
        return d

    def twin_comparable(self, hist, env, cfg):
        # Dense and sparse are documented to describe the same quantity (minus path length, plus time penalties)
        # only for episodes that end by completion; at the step limit both hand out a separately documented
        # penalty. An episode that ends before the step limit ended by completion.
        steps = [r for r in hist[1:] if not r.post_terminal]
        if not steps or int(hist[-1].ts.step_type) != 2 or len(steps) >= self.horizon(env, cfg):
            return False
        s = hist[-1].state
        return bool((np.asarray(s.nodes.demands) == 0).all() and (np.asarray(s.vehicles.positions) == DEPOT).all())

    # ---- C11 -----------------------------------------------------------------------------------
    def end_cause(self, ps, action, s, ts, env, cfg):
        if bool((np.asarray(s.nodes.demands) == 0).all() and (np.asarray(s.vehicles.positions) == DEPOT).all()):
            return "all_collected_and_vehicles_at_depot"
        return None

    # ---- reach probes ----------------------------------------------------------------------------
    def events(self, ps, action, s, ts, env, cfg):
        dem1 = np.asarray(s.nodes.demands).astype(np.int64)
        pos1 = np.asarray(s.vehicles.positions).astype(np.int64)
        cap1 = np.asarray(s.vehicles.capacities).astype(np.int64)
        if ps is None:
            return ([f"reset_vehicles_{len(pos1)}"] + (["reset_sparse_reward"] if cfg.get("rew") == "sparse" else [])
                    + (["reset_customer_no_vehicle_can_serve"] if (dem1[1:] > cap1.max(initial=0)).any() else []))
        dem0 = np.asarray(ps.nodes.demands).astype(np.int64)
        pos0 = np.asarray(ps.vehicles.positions).astype(np.int64)
        cap0 = np.asarray(ps.vehicles.capacities).astype(np.int64)
        acts = [int(a) for a in action]
        ev = []
        for v, a in enumerate(acts):
            if a == DEPOT:
                if int(pos0[v]) != DEPOT:
                    fits = bool(((dem0 > 0) & (dem0 <= cap0[v])).any())
                    ev.append("depot_return_while_customer_fits" if fits else "depot_return_with_load_spent")
            elif not (0 <= a < len(dem0)) or dem0[a] <= 0:
                ev.append("chosen_customer_already_served")
            elif dem0[a] > cap0[v]:
                ev.append("chosen_customer_exceeds_capacity")
            elif acts.count(a) == 1:
                ev.append("vehicle_served_customer" if int(pos1[v]) == a else "uncontended_valid_choice_not_served")
                if int(pos1[v]) == a and int(dem0[a]) == int(cap0[v]):
                    ev.append("demand_equals_remaining_capacity")
                lt, ws, we = (float(np.asarray(x).reshape(-1)[i]) for x, i in ((s.vehicles.local_times, v), (s.windows.start, a), (s.windows.end, a)))
                if int(pos1[v]) == a and (lt < ws or lt > we):
                    ev.append("arrival_before_window_start" if lt < ws else "arrival_after_window_end")
        for a in {a for a in acts if a != DEPOT and acts.count(a) >= 2}:
            ev.append("two_vehicles_pick_same_customer" if acts.count(a) == 2 else "three_vehicles_pick_same_customer")
            ev.append("contended_customer_served" if (pos1 == a).any() else "contended_customer_left_unserved")
        if int((pos1 != DEPOT).sum()) >= 2:
            ev.append("vehicles_serving_simultaneously_ge2")
        if all(a == DEPOT for a in acts) and (pos0 == DEPOT).all():
            ev.append("all_vehicles_idle_at_depot")
        done, last = bool((dem1 == 0).all() and (pos1 == DEPOT).all()), int(s.step_count) - 1 >= self.horizon(env, cfg)
        if (dem1 == 0).all() and not (dem0 == 0).all():
            ev.append("last_customer_served")
        if done:
            near = int(s.step_count) == self.horizon(env, cfg)  # one step of slack left
            ev.append("end_completed_at_last_allowed_step" if last else "end_completed_one_step_before_limit" if near else "end_completed")
        elif last:
            ev.append("end_step_limit_incomplete")
        return ev

    # ---- C12 -----------------------------------------------------------------------------------
    def observe(self, s, obs, env, cfg):
        # The observation carries the instance (node coordinates, remaining demands, time windows, penalty
        # coefficients), per vehicle its coordinates / local time / remaining capacity, and the action mask.
        # (docs/environments/multi_cvrp.md lists per-vehicle batched copies and "other vehicles" fields that
        # the Observation type does not have; only fields that exist are judged.)
        pairs = [("nodes.coordinates", obs.nodes.coordinates, s.nodes.coordinates), ("nodes.demands", obs.nodes.demands, s.nodes.demands),
                 ("windows.start", obs.windows.start, s.windows.start), ("windows.end", obs.windows.end, s.windows.end),
                 ("coeffs.early", obs.coeffs.early, s.coeffs.early), ("coeffs.late", obs.coeffs.late, s.coeffs.late),
                 ("vehicles.local_times", obs.vehicles.local_times, s.vehicles.local_times),
                 ("vehicles.capacities", obs.vehicles.capacities, s.vehicles.capacities)]
        for name, o, w in pairs:
            o, w = np.asarray(o), np.asarray(w)
            if o.shape != w.shape or not np.array_equal(o, w):
                return (name.replace(".", "_"), f"obs.{name} {o.tolist()} vs state {w.tolist()}")
        pos = np.asarray(s.vehicles.positions).astype(np.int64)
        want_xy = np.asarray(s.nodes.coordinates)[pos]  # a vehicle is located at the node it is visiting
        xy = np.asarray(obs.vehicles.coordinates)
        if xy.shape != want_xy.shape or not np.allclose(xy, want_xy, rtol=1e-6, atol=1e-6):
            return ("vehicles_coordinates", f"obs.vehicles.coordinates {xy.tolist()} vs coordinates of the nodes {pos.tolist()} the vehicles are at {want_xy.tolist()}")
        m = np.asarray(obs.action_mask)
        sm = np.asarray(s.action_mask)
        if m.shape != (cfg["v"], cfg["n"] + 1) or not np.array_equal(m.astype(bool), sm.astype(bool)):
            return ("action_mask", "obs.action_mask != state.action_mask")
        can = self.legal(s, env)  # possible actions recomputed from the remaining demands / capacities of this state
        if not np.array_equal(m.astype(bool), can):
            i = np.argwhere(m.astype(bool) != can)[0]
            return ("action_mask_stale", f"obs.action_mask[{int(i[0])},{int(i[1])}]={bool(m[tuple(i)])} but {self.describe(s, env, tuple(i))}")
        return None

    # ---- policies ------------------------------------------------------------------------------
    def policy_complete(self, s, env, rng, legal):
        """Every vehicle takes a different customer it can serve (largest demand first); depot otherwise."""
        if legal is None:
            return None
        dem = np.asarray(s.nodes.demands)
        # deadline-aware: while there is slack, stall at the depot half of the time, so that many episodes complete on
        # (or right before) the last step the step limit allows
        n_cust, n_veh = legal.shape[1] - 1, legal.shape[0]
        unserved = int((dem[1:] > 0).sum())
        needed = -(-unserved // n_veh) + 1
        remaining = (2 * n_cust - 1) - (int(s.step_count) - 1)
        if unserved and remaining > needed and rng.random() < 0.5:
            return [DEPOT] * n_veh
        taken, out = set(), []
        for v in range(legal.shape[0]):
            idx = [int(i) for i in np.flatnonzero(legal[v]) if i != DEPOT and int(i) not in taken]
            if idx:
                c = max(idx, key=lambda i: (int(dem[i]), -i))
                taken.add(c)
                out.append(c)
            else:
                out.append(DEPOT)
        return out

    def policy_collide(self, s, env, rng, legal):
        """All vehicles that can, ask for the same customer (contention)."""
        if legal is None:
            return None
        both = legal[:, 1:].sum(axis=0)
        if both.max(initial=0) == 0:
            return [DEPOT] * legal.shape[0]
        cands = np.flatnonzero(both == both.max()) + 1
        c = int(cands[int(rng.integers(0, len(cands)))])
        return [c if legal[v, c] else DEPOT for v in range(legal.shape[0])]

    def policy_survive(self, s, env, rng, legal):
        """Stall: everybody stays at / returns to the depot (runs into the step limit)."""
        if legal is None:
            return None
        return [DEPOT] * legal.shape[0]
