from jsim.envs.base import Adapter
from jsim.envs._mk import cfg


class A(Adapter):
    name = "Game2048"
    mask_mode = "flat"

    def configs(self):
        return [cfg("b4", True, board_size=4), cfg("b2", True, board_size=2), cfg("b3", board_size=3), cfg("b5", board_size=5)]

    def build(self, c):
        from jumanji.environments import Game2048
        return Game2048(board_size=c["board_size"])

    def max_steps(self, env, c):
        return 400
