"""Game2048: rules written from docs/environments/game_2048.md, the class docstring and the game it names.

Board of board_size x board_size holding exponents (0 = empty, e = tile of value 2**e). Actions
0..3 = up, right, down, left: every tile slides as far as it can towards that side; two equal tiles
that meet merge into one tile of twice the value (exponent + 1); a tile produced by a merge does not
merge again in the same move, and pairs are formed starting from the side the tiles move towards
(the rule of the game the docs refer to: 2 2 2 -> 4 2, 2 2 2 2 -> 4 4). A move is legal iff it
changes the board. After a legal move exactly one tile 2 or 4 (exponent 1 or 2) appears on an empty
cell. Reward = sum of the values of the tiles created by merging. An illegal move is ignored. The
episode ends when no legal move remains.
"""
from __future__ import annotations

from typing import Any, List, Optional, Tuple

import numpy as np

from jsim.envs._mk import cfg
from jsim.envs.base import Adapter

NAMES = ["up", "right", "down", "left"]


def _squeeze(line: List[int]) -> Tuple[List[int], int]:
    """One line of tiles moving towards index 0. Returns (new line, value created by merging)."""
    tiles = [int(v) for v in line if v != 0]
    out: List[int] = []
    gained = 0
    i = 0
    while i < len(tiles):
        if i + 1 < len(tiles) and tiles[i] == tiles[i + 1]:
            out.append(tiles[i] + 1)
            gained += 2 ** (tiles[i] + 1)
            i += 2  # both tiles are consumed; the new tile cannot merge again in this move
        else:
            out.append(tiles[i])
            i += 1
    return out + [0] * (len(line) - len(out)), gained


def _merge_flags(tiles: List[int]) -> Tuple[List[int], List[bool]]:
    """Tiles of one line after the move (same pairing rule as _squeeze) and, for each, whether a merge produced it."""
    out: List[int] = []
    fresh: List[bool] = []
    i = 0
    while i < len(tiles):
        pair = i + 1 < len(tiles) and tiles[i] == tiles[i + 1]
        out.append(tiles[i] + 1 if pair else tiles[i])
        fresh.append(bool(pair))
        i += 2 if pair else 1
    return out, fresh


def slide(board: np.ndarray, a: int) -> Tuple[np.ndarray, int]:
    """Board after sliding in direction a (before any tile is spawned) and the value merged."""
    b = np.asarray(board).astype(np.int64)
    n, m = b.shape
    out = np.zeros_like(b)
    gained = 0
    if a in (0, 2):  # up / down: columns; up moves towards row 0
        for c in range(m):
            col = b[:, c].tolist()
            if a == 2:
                col = col[::-1]
            new, g = _squeeze(col)
            if a == 2:
                new = new[::-1]
            out[:, c] = new
            gained += g
    else:  # right / left: rows; left moves towards column 0
        for r in range(n):
            row = b[r, :].tolist()
            if a == 1:
                row = row[::-1]
            new, g = _squeeze(row)
            if a == 1:
                new = new[::-1]
            out[r, :] = new
            gained += g
    return out, gained


def tile_sum(board: np.ndarray) -> int:
    b = np.asarray(board).astype(np.int64)
    return int(sum(2 ** int(e) for e in b[b > 0]))


class A(Adapter):
    name = "Game2048"
    mask_mode = "flat"
    terminate_on_invalid = False
    has_reaction = True
    has_invalid_effect = True
    has_physical = True
    has_objective = True
    objective_without_end = True
    has_model = True
    has_observer = True

    def configs(self):
        return [cfg("b4", True, board_size=4), cfg("b2", True, board_size=2), cfg("b3", board_size=3), cfg("b5", board_size=5)]

    def build(self, c):
        from jumanji.environments import Game2048
        return Game2048(board_size=c["board_size"])

    def max_steps(self, env, c):
        return 400

    # ---- C04 -------------------------------------------------------------------------------------
    def legal(self, s: Any, env: Any) -> np.ndarray:
        b = np.asarray(s.board)
        return np.asarray([not np.array_equal(slide(b, a)[0], b) for a in range(4)], dtype=bool)

    def describe(self, s, env, idx):
        return f"direction {NAMES[int(idx[0])]}; board=\n{np.asarray(s.board)}"

    def reaction_invalid(self, ps, action, agent, s, ts, env, cfg):
        # ignore-invalid env: the move was treated as invalid iff nothing moved and nothing was spawned. A move that is
        # carried out always changes the board (the slide changes it and the spawn raises the tile sum).
        return bool(np.array_equal(np.asarray(s.board), np.asarray(ps.board)))

    # ---- C05 -------------------------------------------------------------------------------------
    def invalid_effect(self, ps, action, illegal, s, ts, env, cfg):
        pb, nb = np.asarray(ps.board), np.asarray(s.board)
        if not np.array_equal(pb, nb):
            d = np.argwhere(pb != nb)[0].tolist()
            return ("invalid_move_changed_board", f"{NAMES[int(action)]} cannot move any tile but cell {d} went from {int(pb[tuple(d)])} to "
                    f"{int(nb[tuple(d)])} (tile count {int((pb > 0).sum())} -> {int((nb > 0).sum())})")
        if float(ts.reward) != 0.0:
            return ("invalid_move_reward", f"reward {float(ts.reward)} for a move that merges nothing")
        if float(s.score) != float(ps.score):
            return ("invalid_move_changed_score", f"score {float(ps.score)} -> {float(s.score)}")
        # ps is non-terminal, so a legal move exists there; the board is the same, so one still exists: the game goes on.
        if int(ts.step_type) == 2:
            return ("invalid_move_terminal", "LAST after an ignored move although the unchanged board still has a legal move")
        if float(ts.discount) != 1.0:
            return ("invalid_move_discount", f"discount {float(ts.discount)} on a non-terminal step")
        return None

    # ---- C07 -------------------------------------------------------------------------------------
    def physical(self, ps, action, s, ts, env, cfg):
        nb = np.asarray(s.board)
        if nb.ndim != 2 or nb.shape[0] != nb.shape[1] or nb.shape[0] != cfg["board_size"]:
            return ("board_shape", f"board shape {nb.shape} for board_size {cfg['board_size']}")
        if (nb < 0).any():
            return ("negative_exponent", f"board holds a negative entry:\n{nb}")
        if ps is None:
            tiles = nb[nb > 0]
            if len(tiles) != 1 or int(tiles[0]) not in (1, 2):
                return ("initial_board", f"the initial board must hold exactly one tile 2 or 4; exponents present: {tiles.tolist()}")
            return None
        a = int(action)
        pb = np.asarray(ps.board)
        moved, gained = slide(pb, a)
        is_legal = not np.array_equal(moved, pb)
        before, after = tile_sum(pb), tile_sum(nb)
        # conservation across the move: merging keeps the sum of tile values, so all of the change is the spawned tile
        if tile_sum(moved) != before:  # pragma: no cover (guards the rule statement itself)
            raise AssertionError("slide() does not conserve the tile sum")
        if is_legal and after - before not in (2, 4):
            return ("tile_sum_not_conserved", f"{NAMES[a]} (legal): tile sum {before} -> {after}; a legal move adds exactly one tile 2 or 4")
        if not is_legal and after != before:
            return ("tile_sum_not_conserved", f"{NAMES[a]} (moves nothing): tile sum {before} -> {after}")
        diff = np.argwhere(nb != moved)
        if is_legal:
            if len(diff) != 1:
                return ("spawn_count", f"{NAMES[a]} (legal): {len(diff)} cells differ from the slid board, expected exactly one spawned tile;\n"
                        f"slid=\n{moved}\ngot=\n{nb}")
            i = tuple(diff[0])
            if moved[i] != 0 or int(nb[i]) not in (1, 2):
                return ("spawn_value", f"cell {list(map(int, i))}: slid board has {int(moved[i])}, successor has {int(nb[i])}; a spawned tile is "
                        f"2 or 4 on an empty cell")
        elif len(diff) != 0:
            return ("spawn_after_illegal_move", f"{NAMES[a]} moves nothing, yet {len(diff)} cells changed")
        if not np.isclose(float(ts.reward), float(gained), rtol=1e-5, atol=1e-6):
            return ("reward_vs_merged_tiles", f"{NAMES[a]}: reward {float(ts.reward)} but the merged tiles are worth {gained}")
        return None

    # ---- C08 -------------------------------------------------------------------------------------
    def objective(self, hist, env, cfg):
        # The documented cumulative reward (sum of the values of all tiles created by merging) is what the state carries
        # as its score; the per-step amounts are checked against the merge rule by C07/C09.
        return float(hist[-1].state.score)

    # ---- C09 -------------------------------------------------------------------------------------
    def model_step(self, ps, action, s, ts, env, cfg):
        a = int(action)
        pb, nb = np.asarray(ps.board), np.asarray(s.board)
        moved, gained = slide(pb, a)
        is_legal = not np.array_equal(moved, pb)
        if is_legal:
            diff = np.argwhere(nb != moved)
            # random part by set membership: one new tile, exponent 1 or 2, on a cell that is empty after the slide
            if len(diff) != 1 or moved[tuple(diff[0])] != 0 or int(nb[tuple(diff[0])]) not in (1, 2):
                return ("board", f"{NAMES[a]} from\n{pb}\nthe rules give (before the spawn)\n{moved}\nbut the env returned\n{nb}")
        else:
            gained = 0
            if not np.array_equal(nb, pb):
                return ("board_after_ignored_move", f"{NAMES[a]} moves nothing on\n{pb}\nbut the env returned\n{nb}")
        if not np.isclose(float(ts.reward), float(gained), rtol=1e-5, atol=1e-6):
            return ("reward", f"reward {float(ts.reward)} expected {gained} ({NAMES[a]} on\n{pb})")
        if int(s.step_count) != int(ps.step_count) + 1:
            return ("step_count", f"step_count {int(s.step_count)} expected {int(ps.step_count) + 1}")
        if not np.isclose(float(s.score), float(ps.score) + gained, rtol=1e-6, atol=1e-6):
            return ("score", f"score {float(s.score)} expected {float(ps.score) + gained}")
        done = not any(not np.array_equal(slide(nb, d)[0], nb) for d in range(4))
        if (int(ts.step_type) == 2) != done:
            return ("termination", f"step_type {int(ts.step_type)} but the rules say done={done} for\n{nb}")
        want_disc = 0.0 if done else 1.0
        if float(ts.discount) != want_disc:
            return ("discount", f"discount {float(ts.discount)} expected {want_disc}")
        return None

    # ---- C11 (no time limit; the only documented end is "no legal move") -------------------------
    def end_cause(self, ps, action, s, ts, env, cfg):
        return None if self.legal(s, env).any() else "no_legal_move"

    # ---- reach probes ---------------------------------------------------------------------------
    def events(self, ps, action, s, ts, env, cfg):
        nb = np.asarray(s.board).astype(np.int64)
        if ps is None:
            ev = ["reset_tile_4" if int(nb.max()) == 2 else "reset_tile_2"]
            r, c = (int(v) for v in np.argwhere(nb > 0)[0]) if (nb > 0).any() else (-1, -1)
            if r in (0, nb.shape[0] - 1) and c in (0, nb.shape[1] - 1):
                ev.append("reset_tile_in_corner")
            return ev
        a = int(action)
        pb = np.asarray(ps.board).astype(np.int64)
        moved, gained = slide(pb, a)
        if np.array_equal(moved, pb):
            return ["illegal_move_ignored"] + (["illegal_move_on_full_board"] if (pb > 0).all() else [])
        ev = ["merge" if gained else "slide_without_merge"]
        lines = [pb[:, c] for c in range(pb.shape[1])] if a in (0, 2) else [pb[r, :] for r in range(pb.shape[0])]
        double = 0
        for ln in lines:  # the lines as the move sees them: tiles only, first the one nearest to the side moved towards
            t = [int(v) for v in (ln[::-1] if a in (1, 2) else ln) if v != 0]
            out, fresh = _merge_flags(t)
            if sum(fresh) >= 2:
                ev.append("two_merges_in_one_line")
                double += 1
            if any(t[i] == t[i + 1] == t[i + 2] for i in range(len(t) - 2)):
                ev.append("three_equal_tiles_in_line")
            if any(out[k] == out[k + 1] and (fresh[k] or fresh[k + 1]) for k in range(len(out) - 1)):
                ev.append("fresh_tile_next_to_equal_tile")  # e.g. 2 2 4 -> 4 4: a tile made by a merge must not merge again
        if double >= 2:
            ev.append("two_lines_with_two_merges")
        diff = np.argwhere(nb != moved)
        if len(diff) == 1:
            ev.append("spawned_4" if int(nb[tuple(diff[0])]) == 2 else "spawned_2")
        if gained and int(moved.max()) > int(pb.max()):
            ev.append("new_max_tile")
            if int(moved.max()) >= 7:
                ev.append("created_tile_ge_128")
        if not (nb == 0).any():
            ev.append("board_full")
        if int(ts.step_type) == 2 and not self.legal(s, env).any():
            ev.append("ended_no_legal_move")
        return sorted(set(ev))

    # ---- C12 -------------------------------------------------------------------------------------
    def observe(self, s, obs, env, cfg):
        if not np.array_equal(np.asarray(obs.board), np.asarray(s.board)):
            return ("board", f"obs.board != state.board at {np.argwhere(np.asarray(obs.board) != np.asarray(s.board))[0].tolist()}")
        if np.asarray(obs.board).dtype != np.int32:
            return ("board_dtype", f"{np.asarray(obs.board).dtype}")
        if not np.array_equal(np.asarray(obs.action_mask), np.asarray(s.action_mask)):
            return ("action_mask", f"obs.action_mask {np.asarray(obs.action_mask).tolist()} != state.action_mask {np.asarray(s.action_mask).tolist()}")
        return None

    # ---- policies --------------------------------------------------------------------------------
    def policy_survive(self, s, env, rng, legal):
        """Keep the board as empty as possible (most empty cells after the slide, then corner-heavy)."""
        if legal is None or not legal.any():
            return None
        b = np.asarray(s.board)
        best, best_a = None, None
        for a in [int(x) for x in rng.permutation(4)]:
            if legal[a]:
                moved, gained = slide(b, a)
                key = (int((moved == 0).sum()), gained)
                if best is None or key > best:
                    best, best_a = key, a
        return best_a

    def policy_complete(self, s, env, rng, legal):
        """There is no completion in 2048; chase merges (largest merged value first) so that multi-merge rows occur."""
        if legal is None or not legal.any():
            return None
        b = np.asarray(s.board)
        best, best_a = None, None
        for a in [int(x) for x in rng.permutation(4)]:
            if legal[a]:
                g = slide(b, a)[1]
                if best is None or g > best:
                    best, best_a = g, a
        return best_a
