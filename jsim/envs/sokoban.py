from jsim.envs.base import Adapter
from jsim.envs._mk import cfg, cross_tl


class A(Adapter):
    name = "Sokoban"
    mask_mode = None

    def configs(self):
        base = [cfg("toy", True, gen="toy", rew="dense", tl=None), cfg("simple", True, gen="simple", rew="sparse", tl=None)]
        return cross_tl(base, [1, 2, 3, 7])

    def build(self, c):
        from jumanji.environments import Sokoban
        from jumanji.environments.routing.sokoban import generator as G
        from jumanji.environments.routing.sokoban import reward as R
        g = G.ToyGenerator() if c["gen"] == "toy" else G.SimpleSolveGenerator()
        rf = R.DenseReward() if c["rew"] == "dense" else R.SparseReward()
        kw = {} if c.get("tl") is None else {"time_limit": c["tl"]}
        return Sokoban(generator=g, reward_fn=rf, **kw)

    def time_limit(self, env, c):
        return 120 if c.get("tl") is None else c["tl"]
