"""Sokoban: rules written from docs/environments/sokoban.md, the class docstring and reward.py docstrings.

10x10 level. `fixed_grid`: 0 floor, 1 wall, 2 target. `variable_grid`: 0 empty, 3 agent, 4 box (4 boxes).
Actions 0..3 = up, right, down, left (class docstring and `action_spec` docstring; docs/sokoban.md and the
`step` docstring list another order - a naming inconsistency only, the displacement table is the
class-docstring one). The agent moves one cell. If the cell ahead holds a box, the box is pushed one cell
further. "If the agent attempts to move into a wall, off the grid, or push a box into a wall or off the
grid, the grid state remains unchanged; however, the step count is incremented by one. Chained box pushes
are not allowed and will result in no action."
Dense reward: -0.1 per step, +1 / -1 per box moved onto / off a target, +10 when all four boxes are on
targets. Sparse reward: only the +10 on completion. The episode ends when all 4 boxes are on targets or
at the time limit (default 120).

There is no action mask in the env; `legal()` is the set of moves that change something (mask_mode is
"flat" only so that the C05 machinery can enumerate the moves that must be ignored).
"""
from __future__ import annotations

from collections import deque
from typing import Any, Dict, FrozenSet, Optional, Tuple

import numpy as np

from jsim.envs._mk import cfg, cross_tl
from jsim.envs.base import Adapter

DELTA = [(-1, 0), (0, 1), (1, 0), (0, -1)]  # up, right, down, left
FLOOR, WALL, TARGET = 0, 1, 2
EMPTY, AGENT, BOX = 0, 3, 4
N_BOXES = 4


class A(Adapter):
    name = "Sokoban"
    mask_mode = "flat"
    has_invalid_effect = True
    has_physical = True
    has_model = True
    has_observer = True

    def __init__(self) -> None:
        self._plan_memo: Dict[Any, Optional[int]] = {}

    def configs(self):
        base = [cfg("toy", True, gen="toy", rew="dense", tl=None), cfg("simple", True, gen="simple", rew="sparse", tl=None)]
        return cross_tl(base, [1, 2, 3, 7])

    def build(self, c):
        from jumanji.environments import Sokoban
        from jumanji.environments.routing.sokoban import generator as G
        from jumanji.environments.routing.sokoban import reward as R
        g = G.ToyGenerator() if c["gen"] == "toy" else G.SimpleSolveGenerator()
        rf = R.DenseReward() if c["rew"] == "dense" else R.SparseReward()
        kw = {} if c.get("tl") is None else {"time_limit": c["tl"]}
        return Sokoban(generator=g, reward_fn=rf, **kw)

    def time_limit(self, env, c):
        return 120 if c.get("tl") is None else c["tl"]

    # ---- rules ---------------------------------------------------------------------------------
    @staticmethod
    def _agent(s: Any) -> Tuple[int, int]:
        loc = np.asarray(s.agent_location)
        return int(loc[0]), int(loc[1])

    @staticmethod
    def _boxes(vg: np.ndarray) -> FrozenSet[Tuple[int, int]]:
        return frozenset((int(i), int(j)) for i, j in np.argwhere(vg == BOX))

    @staticmethod
    def _move(walls: np.ndarray, boxes: FrozenSet[Tuple[int, int]], agent: Tuple[int, int], a: int
              ) -> Optional[Tuple[Tuple[int, int], FrozenSet[Tuple[int, int]]]]:
        """The published move rule. None = the move changes nothing (wall / border / blocked push)."""
        R, C = walls.shape
        dr, dc = DELTA[a]
        t = (agent[0] + dr, agent[1] + dc)
        if not (0 <= t[0] < R and 0 <= t[1] < C) or walls[t]:
            return None
        if t in boxes:
            b = (t[0] + dr, t[1] + dc)
            if not (0 <= b[0] < R and 0 <= b[1] < C) or walls[b] or b in boxes:
                return None
            return t, (boxes - {t}) | {b}
        return t, boxes

    def _parts(self, s: Any) -> Tuple[np.ndarray, np.ndarray, FrozenSet[Tuple[int, int]], Tuple[int, int]]:
        fg, vg = np.asarray(s.fixed_grid), np.asarray(s.variable_grid)
        return fg == WALL, fg == TARGET, self._boxes(vg), self._agent(s)

    def legal(self, s: Any, env: Any) -> np.ndarray:
        walls, _, boxes, agent = self._parts(s)
        return np.asarray([self._move(walls, boxes, agent, a) is not None for a in range(4)], bool)

    def describe(self, s, env, idx):
        return f"agent={self._agent(s)} variable_grid=\n{np.asarray(s.variable_grid)}\nfixed_grid=\n{np.asarray(s.fixed_grid)}"

    @staticmethod
    def _on_targets(boxes: FrozenSet[Tuple[int, int]], targets: np.ndarray) -> int:
        return sum(1 for b in boxes if targets[b])

    def _reward(self, cfg: Any, before: int, after: int) -> float:
        solved = after == N_BOXES
        if cfg["rew"] == "dense":
            return 1.0 * (after - before) + (10.0 if solved else 0.0) - 0.1
        return 10.0 if solved else 0.0

    # ---- C05 (ignore-invalid) --------------------------------------------------------------------
    def invalid_effect(self, ps, action, illegal, s, ts, env, cfg):
        if not np.array_equal(np.asarray(s.variable_grid), np.asarray(ps.variable_grid)):
            k = np.argwhere(np.asarray(s.variable_grid) != np.asarray(ps.variable_grid))[0].tolist()
            return ("blocked_move_changed_grid", f"variable_grid changed at {k} on the blocked action {int(action)} (agent {self._agent(ps)})")
        if self._agent(s) != self._agent(ps):
            return ("blocked_move_moved_agent", f"agent_location {self._agent(ps)} -> {self._agent(s)} on the blocked action {int(action)}")
        if not np.array_equal(np.asarray(s.fixed_grid), np.asarray(ps.fixed_grid)):
            return ("fixed_grid_changed", "fixed_grid changed during a step")
        sc = int(ps.step_count) + 1
        if int(s.step_count) != sc:
            return ("blocked_move_step_count", f"step_count {int(s.step_count)} expected {sc} (the step count is incremented by one)")
        _, targets, boxes, _ = self._parts(ps)
        n = self._on_targets(boxes, targets)
        if n == N_BOXES:
            return None  # a continuing episode is never in a solved position; if it were, the docs say nothing
        tl = self.time_limit(env, cfg)
        if (int(ts.step_type) == 2) != (sc >= tl):
            return ("blocked_move_termination", f"step_type {int(ts.step_type)} after a blocked move at step {sc} (time_limit {tl})")
        want = self._reward(cfg, n, n)
        if not np.isclose(float(ts.reward), want, rtol=1e-5, atol=1e-6):
            return ("blocked_move_reward", f"reward {float(ts.reward)} expected {want} (no box moved)")
        return None

    # ---- C07 -------------------------------------------------------------------------------------
    def physical(self, ps, action, s, ts, env, cfg):
        fg, vg = np.asarray(s.fixed_grid), np.asarray(s.variable_grid)
        R, C = vg.shape
        cells = [tuple(int(v) for v in x) for x in np.argwhere(vg == AGENT)]
        if len(cells) != 1:
            return ("agent_count", f"{len(cells)} agent cells in variable_grid: {cells}")
        loc = self._agent(s)
        if not (0 <= loc[0] < R and 0 <= loc[1] < C):
            return ("agent_outside_grid", f"agent_location {loc} outside {R}x{C}")
        if cells[0] != loc:
            return ("agent_location_disagrees_with_grid", f"agent_location {loc} but the agent cell of variable_grid is {cells[0]}")
        boxes = self._boxes(vg)
        if len(boxes) != N_BOXES:
            return ("box_count", f"{len(boxes)} boxes in variable_grid: {sorted(boxes)}")
        if fg[loc] == WALL:
            return ("agent_on_wall", f"agent at {loc} stands on a wall")
        for b in sorted(boxes):
            if fg[b] == WALL:
                return ("box_on_wall", f"box at {b} lies on a wall")
        if ps is not None and not np.array_equal(np.asarray(ps.fixed_grid), fg):
            return ("fixed_grid_changed", "fixed_grid changed during a step")
        return None

    # ---- C09 -------------------------------------------------------------------------------------
    def model_step(self, ps, action, s, ts, env, cfg):
        a = int(action)
        walls, targets, boxes, agent = self._parts(ps)
        res = self._move(walls, boxes, agent, a)
        nagent, nboxes = (agent, boxes) if res is None else res
        if not (0 <= nagent[0] < walls.shape[0] and 0 <= nagent[1] < walls.shape[1]):
            return ("agent_outside_grid", f"predecessor agent_location {agent} is outside the grid")
        vg = np.zeros_like(np.asarray(ps.variable_grid))
        for b in nboxes:
            vg[b] = BOX
        vg[nagent] = AGENT
        if not np.array_equal(np.asarray(s.variable_grid), vg):
            k = np.argwhere(np.asarray(s.variable_grid) != vg)[0].tolist()
            return ("variable_grid", f"variable_grid at {k} is {int(np.asarray(s.variable_grid)[tuple(k)])} expected {int(vg[tuple(k)])} "
                    f"(agent {agent}, action {a}, {'blocked' if res is None else 'push' if nboxes != boxes else 'move'})")
        if self._agent(s) != nagent:
            return ("agent_location", f"agent_location {self._agent(s)} expected {nagent}")
        if not np.array_equal(np.asarray(s.fixed_grid), np.asarray(ps.fixed_grid)):
            return ("fixed_grid", "fixed_grid changed during a step")
        sc = int(ps.step_count) + 1
        if int(s.step_count) != sc:
            return ("step_count", f"step_count {int(s.step_count)} expected {sc}")
        before, after = self._on_targets(boxes, targets), self._on_targets(nboxes, targets)
        want = self._reward(cfg, before, after)
        if not np.isclose(float(ts.reward), want, rtol=1e-5, atol=1e-6):
            return ("reward", f"reward {float(ts.reward)} expected {want} ({cfg['rew']}: boxes on targets {before} -> {after})")
        tl = self.time_limit(env, cfg)
        done = after == N_BOXES or sc >= tl
        if (int(ts.step_type) == 2) != done:
            return ("termination", f"step_type {int(ts.step_type)} but the rules say done={done} (boxes on targets {after}, step {sc}/{tl})")
        return None

    # ---- C11 -------------------------------------------------------------------------------------
    def end_cause(self, ps, action, s, ts, env, cfg):
        _, targets, boxes, _ = self._parts(s)
        if self._on_targets(boxes, targets) == N_BOXES:
            return "solved"
        return None

    # ---- reach probes ------------------------------------------------------------------------------
    def events(self, ps, action, s, ts, env, cfg):
        walls1, targets1, boxes1, agent1 = self._parts(s)
        on1 = self._on_targets(boxes1, targets1)
        if ps is None:
            return ([f"reset_gen_{cfg.get('gen', 'unknown')}"] + (["reset_box_already_on_target"] if on1 else [])
                    + (["reset_agent_adjacent_to_box"] if any((agent1[0] + dr, agent1[1] + dc) in boxes1 for dr, dc in DELTA) else []))
        walls, targets, boxes, agent = self._parts(ps)
        R, C = walls.shape
        dr, dc = DELTA[int(action)]
        t, b = (agent[0] + dr, agent[1] + dc), (agent[0] + 2 * dr, agent[1] + 2 * dc)
        inside = lambda p: 0 <= p[0] < R and 0 <= p[1] < C  # noqa: E731
        ev = []
        if not inside(t):
            ev.append("move_blocked_by_border")
        elif walls[t]:
            ev.append("move_blocked_by_wall")
        elif t not in boxes:
            ev.append("moved_without_push")
            if targets[t]:
                ev.append("agent_steps_on_target")
        elif not inside(b):
            ev.append("push_blocked_by_border")
        elif walls[b]:
            ev.append("push_blocked_by_wall")
        elif b in boxes:
            ev.append("push_blocked_by_box")
        else:
            ev.append("box_pushed")
            kind = {(False, True): "box_pushed_onto_target", (True, False): "box_pushed_off_target",
                    (True, True): "box_pushed_target_to_target"}.get((bool(targets[t]), bool(targets[b])))
            if kind:
                ev.append(kind)
            solid = [not inside(p) or bool(walls[p]) for p in ((b[0] + ddr, b[1] + ddc) for ddr, ddc in DELTA)]  # up, right, down, left
            if not targets[b] and (solid[0] or solid[2]) and (solid[1] or solid[3]):
                ev.append("box_pushed_into_corner_deadlock")
        if on1 == N_BOXES:
            ev.append("end_solved")
        elif on1 == N_BOXES - 1:
            ev.append("three_boxes_on_targets")
        return ev

    # ---- C12 -------------------------------------------------------------------------------------
    def observe(self, s, obs, env, cfg):
        g = np.asarray(obs.grid)
        vg, fg = np.asarray(s.variable_grid), np.asarray(s.fixed_grid)
        if g.shape != vg.shape + (2,):
            return ("grid_shape", f"{g.shape}")
        if not np.array_equal(g[..., 0], vg):
            k = np.argwhere(g[..., 0] != vg)[0].tolist()
            return ("variable_plane", f"grid[..., 0] at {k} is {int(g[..., 0][tuple(k)])}, variable_grid has {int(vg[tuple(k)])}")
        if not np.array_equal(g[..., 1], fg):
            k = np.argwhere(g[..., 1] != fg)[0].tolist()
            return ("fixed_plane", f"grid[..., 1] at {k} is {int(g[..., 1][tuple(k)])}, fixed_grid has {int(fg[tuple(k)])}")
        if int(obs.step_count) != int(s.step_count):
            return ("step_count", f"obs {int(obs.step_count)} vs state {int(s.step_count)}")
        return None

    # ---- policies ----------------------------------------------------------------------------------
    def _walk_to_free_target(self, walls, targets, boxes, agent) -> Optional[int]:
        """With exactly one target left uncovered: the first step of a walk (no pushing) that puts the agent on it - every
        target is then occupied by something, yet the level is not solved. None when not applicable / already there."""
        if self._on_targets(boxes, targets) != N_BOXES - 1:
            return None
        free_t = [tuple(int(v) for v in t) for t in np.argwhere(targets) if tuple(int(v) for v in t) not in boxes]
        if not free_t or agent == free_t[0]:
            return None
        prev = {agent: None}
        dq = deque([agent])
        while dq:
            cur = dq.popleft()
            if cur == free_t[0]:
                break
            for a in range(4):
                n = (cur[0] + DELTA[a][0], cur[1] + DELTA[a][1])
                if 0 <= n[0] < walls.shape[0] and 0 <= n[1] < walls.shape[1] and not walls[n] and n not in boxes and n not in prev:
                    prev[n] = (cur, a)
                    dq.append(n)
        if free_t[0] not in prev:
            return None
        cur, first = free_t[0], None
        while prev[cur] is not None:
            cur, first = prev[cur][0], prev[cur][1]
        return None if first is None else int(first)

    def policy_survive(self, s, env, rng, legal):
        """Never complete the level: walk without pushing; else a push that does not solve; else bump."""
        walls, targets, boxes, agent = self._parts(s)
        tease = self._walk_to_free_target(walls, targets, boxes, agent)
        if tease is not None:
            return tease
        walk, push, bump = [], [], []
        for a in [int(x) for x in rng.permutation(4)]:
            res = self._move(walls, boxes, agent, a)
            if res is None:
                bump.append(a)
            elif res[1] == boxes:
                walk.append(a)
            elif self._on_targets(res[1], targets) < N_BOXES:
                push.append(a)
        for group in (walk, bump, push):
            if group:
                return group[0]
        return None

    def policy_complete(self, s, env, rng, legal):
        """Shortest solution by BFS over (agent, boxes); bounded, so it only succeeds on easy positions
        (SimpleSolve level and toy positions close to the end). A pure function of the state (memoised)."""
        walls, targets, boxes, agent = self._parts(s)
        if int(s.step_count) % 16 < 8:
            # in the first half of every 16-step window a detour: with one target left, go and stand on it before finishing
            tease = self._walk_to_free_target(walls, targets, boxes, agent)
            if tease is not None:
                return tease
        key = (walls.tobytes(), targets.tobytes(), agent, boxes)
        if key in self._plan_memo:
            return self._plan_memo[key]
        first = None
        if self._on_targets(boxes, targets) < N_BOXES:
            start = (agent, boxes)
            seen = {start: None}
            dq = deque([start])
            goal = None
            while dq and len(seen) < 6000:
                cur = dq.popleft()
                for a in range(4):
                    res = self._move(walls, cur[1], cur[0], a)
                    if res is None or res in seen:
                        continue
                    seen[res] = (cur, a)
                    if self._on_targets(res[1], targets) == N_BOXES:
                        goal = res
                        break
                    dq.append(res)
                if goal is not None:
                    break
            if goal is not None:
                cur = goal
                while seen[cur] is not None:
                    cur, first = seen[cur][0], seen[cur][1]
        if len(self._plan_memo) > 50000:
            self._plan_memo.clear()
        self._plan_memo[key] = first
        return first
