from jsim.envs.base import Adapter
from jsim.envs._mk import cfg


class A(Adapter):
    name = "Sudoku"
    mask_mode = "joint"
    terminate_on_invalid = True

    def configs(self):
        return [cfg("db", True, gen="db"), cfg("dummy", True, gen="dummy"), cfg("veryeasy", gen="veryeasy")]

    def build(self, c):
        from jumanji.environments import Sudoku
        from jumanji.environments.logic.sudoku.generator import DummyGenerator, DatabaseGenerator
        if c["gen"] == "dummy":
            return Sudoku(generator=DummyGenerator())
        if c["gen"] == "veryeasy":
            import os
            import jax.numpy as jnp
            import jumanji.environments.logic.sudoku as sd
            path = os.path.join(os.path.dirname(sd.__file__), "data", "1000_very_easy_puzzles.npy")
            return Sudoku(generator=DatabaseGenerator(jnp.load(path)))
        return Sudoku()

    def horizon(self, env, c):
        return 81
