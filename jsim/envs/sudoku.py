"""Sudoku: rules written from docs/environments/sudoku.md and the class docstring.

9x9 board, -1 = empty, digits 0..8. Action [row, col, digit] writes the digit into the cell. A move
is legal iff the cell is empty and the digit does not yet occur in the cell's row, column or 3x3 box.
The episode ends when no legal action is left (board solved, or a dead end) or on an invalid action.
Reward 1 on the step that completes a correctly solved board, 0 in every other case.
"""
from __future__ import annotations

from typing import Any, Dict, List, Optional, Tuple

import numpy as np

from jsim.envs._mk import cfg
from jsim.envs.base import Adapter

N = 9
FULL = (1 << N) - 1
BUDGET = 5000  # search nodes (each runs the propagation to a fixed point)


def _units() -> List[List[Tuple[int, int]]]:
    rows = [[(r, c) for c in range(N)] for r in range(N)]
    cols = [[(r, c) for r in range(N)] for c in range(N)]
    boxes = [[(3 * br + i, 3 * bc + j) for i in range(3) for j in range(3)] for br in range(3) for bc in range(3)]
    return rows + cols + boxes


UNITS = _units()
UNIT_NAMES = [f"row {i}" for i in range(N)] + [f"column {i}" for i in range(N)] + [f"box {i}" for i in range(N)]


def duplicate(board: np.ndarray) -> Optional[str]:
    """First unit of the board that holds a digit twice (None when there is none)."""
    for name, unit in zip(UNIT_NAMES, UNITS):
        seen: Dict[int, Tuple[int, int]] = {}
        for (r, c) in unit:
            d = int(board[r, c])
            if d < 0:
                continue
            if d in seen:
                return f"digit {d} twice in {name}: cells {seen[d]} and {(r, c)}"
            seen[d] = (r, c)
    return None


_UNITS_IDX = [[r * N + c for (r, c) in u] for u in UNITS]
_PEERS = [sorted({j for u in _UNITS_IDX if i in u for j in u} - {i}) for i in range(N * N)]


def solve(board: np.ndarray) -> Optional[np.ndarray]:
    """Deterministic solver: constraint propagation (a cell with one candidate, a digit with one place in a
    unit) plus backtracking on the most constrained cell, digits ascending. A pure function of the board;
    None when there is no solution (or the node budget is exhausted)."""
    val = [int(x) for x in np.asarray(board).reshape(-1)]
    cand = [FULL] * (N * N)
    budget = [BUDGET]

    def assign(val: List[int], cand: List[int], i: int, d: int) -> bool:
        bit = 1 << d
        val[i] = d
        cand[i] = 0
        for p in _PEERS[i]:
            if val[p] < 0:
                if cand[p] & bit:
                    cand[p] &= ~bit
                    if cand[p] == 0:
                        return False
            elif val[p] == d:
                return False
        return True

    givens = [(i, d) for i, d in enumerate(val) if d >= 0]
    val = [-1] * (N * N)
    for i, d in givens:
        if not (0 <= d < N) or not assign(val, cand, i, d):
            return None

    def propagate(val: List[int], cand: List[int]) -> bool:
        changed = True
        while changed:
            changed = False
            for i in range(N * N):
                if val[i] < 0:
                    m = cand[i]
                    if m == 0:
                        return False
                    if m & (m - 1) == 0:
                        if not assign(val, cand, i, m.bit_length() - 1):
                            return False
                        changed = True
            for u in _UNITS_IDX:
                placed = 0
                for i in u:
                    if val[i] >= 0:
                        placed |= 1 << val[i]
                for d in range(N):
                    bit = 1 << d
                    if placed & bit:
                        continue
                    where = [i for i in u if val[i] < 0 and cand[i] & bit]
                    if not where:
                        return False
                    if len(where) == 1:
                        if not assign(val, cand, where[0], d):
                            return False
                        changed = True
        return True

    def search(val: List[int], cand: List[int]) -> Optional[List[int]]:
        budget[0] -= 1
        if budget[0] < 0 or not propagate(val, cand):
            return None
        best, best_n = -1, 10
        for i in range(N * N):
            if val[i] < 0:
                n = bin(cand[i]).count("1")
                if n < best_n:
                    best, best_n = i, n
        if best < 0:
            return val
        for d in range(N):
            if cand[best] & (1 << d):
                v2, c2 = list(val), list(cand)
                if assign(v2, c2, best, d):
                    out = search(v2, c2)
                    if out is not None:
                        return out
        return None

    out = search(val, cand)
    if out is None:
        return None
    return np.asarray(out, dtype=np.int64).reshape(N, N)


class A(Adapter):
    name = "Sudoku"
    mask_mode = "joint"
    terminate_on_invalid = True
    has_invalid_effect = True
    has_constraints = True
    has_model = True
    has_observer = True

    def __init__(self) -> None:
        # memo of the pure function solve(): board bytes -> solution (or None). Only a speed-up: a hit and
        # a miss give the same answer, so runs and replays do not depend on what was solved before.
        self._solutions: Dict[bytes, Optional[np.ndarray]] = {}

    def configs(self):
        return [cfg("db", True, gen="db"), cfg("dummy", True, gen="dummy"), cfg("veryeasy", gen="veryeasy"),
                cfg("veryeasy_u8", True, gen="veryeasy_u8")]  # the same kind of database handed over as uint8 (0 = empty cell)

    def build(self, c):
        from jumanji.environments import Sudoku
        from jumanji.environments.logic.sudoku.generator import DummyGenerator, DatabaseGenerator
        if c["gen"] == "dummy":
            return Sudoku(generator=DummyGenerator())
        if c["gen"] == "veryeasy_u8":
            import os
            import jumanji.environments.logic.sudoku as sd
            path = os.path.join(os.path.dirname(sd.__file__), "data", "1000_very_easy_puzzles.npy")
            return Sudoku(generator=DatabaseGenerator(np.load(path)[:40].astype(np.uint8)))
        if c["gen"] == "veryeasy":
            import os
            import jax.numpy as jnp
            import jumanji.environments.logic.sudoku as sd
            path = os.path.join(os.path.dirname(sd.__file__), "data", "1000_very_easy_puzzles.npy")
            return Sudoku(generator=DatabaseGenerator(jnp.load(path)))
        return Sudoku()

    def horizon(self, env, c):
        return 81

    # ---- rules ---------------------------------------------------------------------------------
    @staticmethod
    def _legal_board(board: np.ndarray) -> np.ndarray:
        out = np.zeros((N, N, N), bool)
        for r in range(N):
            for c in range(N):
                if board[r, c] != -1:
                    continue
                used = set(int(x) for x in board[r, :]) | set(int(x) for x in board[:, c])
                r0, c0 = 3 * (r // 3), 3 * (c // 3)
                used |= set(int(x) for x in board[r0:r0 + 3, c0:c0 + 3].reshape(-1))
                for d in range(N):
                    if d not in used:
                        out[r, c, d] = True
        return out

    def legal(self, s: Any, env: Any) -> np.ndarray:
        return self._legal_board(np.asarray(s.board))

    def describe(self, s, env, idx):
        r, c, d = idx
        b = np.asarray(s.board)
        r0, c0 = 3 * (r // 3), 3 * (c // 3)
        return (f"cell ({r},{c}) holds {int(b[r, c])}, digit {d}; row {b[r, :].tolist()} column {b[:, c].tolist()} "
                f"box {b[r0:r0 + 3, c0:c0 + 3].reshape(-1).tolist()}")

    @staticmethod
    def _solved(board: np.ndarray) -> bool:
        return bool((board >= 0).all() and (board < N).all()) and duplicate(board) is None

    # ---- C05 -------------------------------------------------------------------------------------
    def invalid_effect(self, ps, action, illegal, s, ts, env, cfg):
        # docs: "reward is 1 at the end of the episode if the board is correctly solved, and 0 in every other case";
        # an invalid action ends the episode. The board after an invalid move is not specified and is not judged.
        if int(ts.step_type) != 2:
            return ("invalid_move_not_terminal", f"step_type {int(ts.step_type)} after the illegal move {list(action)}")
        if float(ts.reward) != 0.0:
            return ("invalid_move_reward", f"reward {float(ts.reward)} != 0 on an illegal move")
        if float(ts.discount) != 0.0:
            return ("invalid_move_discount", f"discount {float(ts.discount)} != 0 on the terminal step")
        return None

    # ---- C06 -------------------------------------------------------------------------------------
    def constraints(self, hist, env, cfg):
        board = np.asarray(hist[-1].state.board)
        if board.shape != (N, N) or board.min() < -1 or board.max() >= N:
            return ("board_value_out_of_range", f"board values in [{int(board.min())}, {int(board.max())}]")
        dup = duplicate(board)
        if dup is not None:
            return ("duplicate_digit", dup)
        # the board must be the reset board plus exactly the placements of the history, each on an empty cell
        want = np.asarray(hist[0].state.board).copy()
        for rec in hist[1:]:
            r, c, d = (int(x) for x in rec.action)
            if want[r, c] != -1:
                return ("placement_on_filled_cell", f"t={rec.t}: masked-in action {[r, c, d]} targets cell ({r},{c}) that already holds {int(want[r, c])}")
            want[r, c] = d
        if not np.array_equal(board, want):
            i = np.argwhere(board != want)[0]
            return ("board_differs_from_history", f"cell {tuple(int(x) for x in i)} holds {int(board[tuple(i)])}, reset board + history gives {int(want[tuple(i)])}")
        if len(hist) > 1 and int(hist[-1].ts.step_type) == 2 and (board >= 0).all() and not self._solved(board):
            return ("full_board_not_a_solution", "episode ended with a full board that is not a valid solution")
        return None

    # ---- C09 -------------------------------------------------------------------------------------
    def model_step(self, ps, action, s, ts, env, cfg):
        r, c, d = (int(x) for x in action)
        pb = np.asarray(ps.board)
        was_legal = bool(self._legal_board(pb)[r, c, d])
        if not was_legal:
            # terminate-on-invalid: only reward / done are specified
            if int(ts.step_type) != 2:
                return ("termination", f"illegal move {[r, c, d]} did not end the episode")
            if float(ts.reward) != 0.0:
                return ("reward", f"reward {float(ts.reward)} after an illegal move, expected 0")
            return None
        nb = pb.copy()
        nb[r, c] = d
        if not np.array_equal(np.asarray(s.board), nb):
            i = np.argwhere(np.asarray(s.board) != nb)[0]
            return ("board", f"after placing {d} at ({r},{c}) cell {tuple(int(x) for x in i)} holds {int(np.asarray(s.board)[tuple(i)])}, expected {int(nb[tuple(i)])}")
        done = not self._legal_board(nb).any()
        want_reward = 1.0 if self._solved(nb) else 0.0
        if abs(float(ts.reward) - want_reward) > 1e-6:
            return ("reward", f"reward {float(ts.reward)} expected {want_reward} (board solved: {self._solved(nb)})")
        if (int(ts.step_type) == 2) != done:
            return ("termination", f"step_type {int(ts.step_type)} but the rules say done={done} (legal moves left: {int(self._legal_board(nb).sum())})")
        return None

    # ---- C11 -------------------------------------------------------------------------------------
    def end_cause(self, ps, action, s, ts, env, cfg):
        r, c, d = (int(x) for x in action)
        if not self._legal_board(np.asarray(ps.board))[r, c, d]:
            return "invalid_action"
        b = np.asarray(s.board)
        if self._solved(b):
            return "solved"
        if not self._legal_board(b).any():
            return "dead_end"
        return None

    # ---- reach probes ---------------------------------------------------------------------------
    def events(self, ps, action, s, ts, env, cfg):
        if ps is None:
            empty = int((np.asarray(s.board) == -1).sum())
            return ["reset_empty_le_10"] if empty <= 10 else (["reset_empty_ge_50"] if empty >= 50 else ["reset_empty_11_to_49"])
        r, c, d = (int(x) for x in action)
        pb = np.asarray(ps.board)
        r0, c0 = 3 * (r // 3), 3 * (c // 3)
        in_row, in_col, in_box = bool((pb[r, :] == d).any()), bool((pb[:, c] == d).any()), bool((pb[r0:r0 + 3, c0:c0 + 3] == d).any())
        if pb[r, c] != -1:
            return ["ended_invalid_cell_already_filled"] + (["invalid_same_digit_rewritten"] if pb[r, c] == d else [])
        if in_row or in_col or in_box:
            ev = ["ended_invalid_digit_conflict"]
            if in_box and not in_row and not in_col:
                ev.append("conflict_in_box_only")
            if in_row and in_col and in_box:
                ev.append("conflict_in_row_column_and_box")
            return ev
        ev = ["digit_placed"]
        cand = self._legal_board(pb)[r, c]
        if int(cand.sum()) == 1:
            ev.append("only_candidate_of_cell_played")
        nb = pb.copy()
        nb[r, c] = d
        done_units = [bool((nb[r, :] >= 0).all()), bool((nb[:, c] >= 0).all()), bool((nb[r0:r0 + 3, c0:c0 + 3] >= 0).all())]
        if any(done_units):
            ev.append("unit_completed")
        if all(done_units):
            ev.append("row_column_and_box_completed_at_once")
        after = self._legal_board(nb)
        if (nb >= 0).all():
            ev.append("last_cell_filled")
            if self._solved(nb):
                ev.append("ended_solved")
        elif not after.any():
            ev.append("ended_dead_end")
        elif ((nb == -1) & ~after.any(axis=2)).any():
            ev.append("empty_cell_without_candidate")  # the game goes on although it cannot be won any more
        return ev

    # ---- C12 -------------------------------------------------------------------------------------
    def observe(self, s, obs, env, cfg):
        if not np.array_equal(np.asarray(obs.board), np.asarray(s.board)):
            i = np.argwhere(np.asarray(obs.board) != np.asarray(s.board))[0]
            return ("board", f"obs.board{i.tolist()} = {int(np.asarray(obs.board)[tuple(i)])} vs state {int(np.asarray(s.board)[tuple(i)])}")
        if not np.array_equal(np.asarray(obs.action_mask), np.asarray(s.action_mask)):
            return ("action_mask", "obs.action_mask != state.action_mask")
        return None

    # ---- policies ----------------------------------------------------------------------------------
    def policy_complete(self, s, env, rng, legal):
        """Play the digits of a backtracking solution of the current board, cells in row-major order."""
        board = np.asarray(s.board)
        key = board.astype(np.int8).tobytes()
        if key not in self._solutions:
            if len(self._solutions) > 20000:
                self._solutions.clear()
            self._solutions[key] = solve(board)
        sol = self._solutions[key]
        if sol is None:
            return None  # unsolvable from here (a dead end is coming): fall back to any legal move
        empt = np.argwhere(board == -1)
        if len(empt) == 0:
            return None
        r, c = int(empt[0][0]), int(empt[0][1])
        a = [r, c, int(sol[r, c])]
        if legal is not None and not legal[tuple(a)]:
            return None
        return a
