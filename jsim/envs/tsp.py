"""TSP: rules written from docs/environments/tsp.md and the class docstring.

num_cities cities with coordinates in the unit square. An action is the index of the next city to visit;
it is legal iff that city has not been visited yet. `trajectory` lists the visited cities in order (-1 =
not filled yet), `position` is the last visited city. The episode ends when all cities have been visited,
or on an invalid action (a city selected again): then the reward is the penalty -num_cities*sqrt(2).
Dense reward: minus the distance from the current city to the chosen one, 0 for the first chosen city, and
for the last city it also includes the distance back to the initial city. Sparse reward: minus the tour
length (closed tour: starts at the first city and ends there after visiting all cities) on the last step,
0 before.
"""
from __future__ import annotations

from typing import Any, List, Optional, Tuple

import numpy as np

from jsim.envs._mk import cfg
from jsim.envs.base import Adapter

PROBLEM_FIELDS = ("coordinates", "visited_mask", "trajectory", "position", "num_visited")


def _dist(xy: np.ndarray, i: int, j: int) -> float:
    d = np.asarray(xy[int(i)], np.float64) - np.asarray(xy[int(j)], np.float64)
    return float(np.sqrt((d * d).sum()))


def _close(a: float, b: float) -> bool:
    return bool(np.isclose(a, b, rtol=1e-5, atol=1e-5))


class A(Adapter):
    name = "TSP"
    mask_mode = "flat"
    terminate_on_invalid = True
    has_reaction = True
    has_invalid_effect = True
    has_constraints = True
    has_objective = True
    has_model = True
    has_observer = True

    def configs(self):
        return [cfg("n20", True, n=20, rew="dense"), cfg("n4sparse", True, n=4, rew="sparse"), cfg("n9", n=9, rew="dense"), cfg("n2sparse", n=2, rew="sparse")]

    def build(self, c):
        from jumanji.environments import TSP
        from jumanji.environments.routing.tsp import generator as G
        from jumanji.environments.routing.tsp import reward as R
        rf = R.DenseReward() if c["rew"] == "dense" else R.SparseReward()
        return TSP(generator=G.UniformGenerator(num_cities=c["n"]), reward_fn=rf)

    def horizon(self, env, c):
        return c["n"]

    # ---- rules ---------------------------------------------------------------------------------
    @staticmethod
    def _route(s: Any) -> List[int]:
        """The cities visited so far, in order: the filled prefix of the trajectory."""
        k = int(s.num_visited)
        return [int(c) for c in np.asarray(s.trajectory)[:k]]

    @staticmethod
    def _penalty(n: int) -> float:
        return -float(n) * float(np.sqrt(2.0))

    def legal(self, s: Any, env: Any) -> np.ndarray:
        # a city can be visited iff it is not on the route so far (the route, not the cached visited_mask,
        # is used so that the mask is judged against the history the state records)
        n = int(np.asarray(s.trajectory).shape[0])
        out = np.ones(n, bool)
        for c in self._route(s):
            if 0 <= c < n:
                out[c] = False
        return out

    def describe(self, s, env, idx):
        return f"route so far {self._route(s)} visited_mask={np.flatnonzero(np.asarray(s.visited_mask)).tolist()}"

    # ---- C04 (b) -------------------------------------------------------------------------------
    def reaction_invalid(self, ps, action, agent, s, ts, env, cfg):
        # invalid signature: LAST carrying the documented penalty (a completing move carries at most
        # -2*sqrt(2) dense / minus a tour length that equals n*sqrt(2) only for a degenerate instance)
        if int(ts.step_type) != 2:
            return False
        return _close(float(ts.reward), self._penalty(cfg["n"]))

    # ---- C05 -----------------------------------------------------------------------------------
    def invalid_effect(self, ps, action, illegal, s, ts, env, cfg):
        n = cfg["n"]
        if int(ts.step_type) != 2:
            return ("invalid_move_not_terminal", f"step_type {int(ts.step_type)} after re-selecting city {int(action)} (route {self._route(ps)})")
        if not _close(float(ts.reward), self._penalty(n)):
            return ("invalid_move_reward", f"reward {float(ts.reward)} != documented penalty -num_cities*sqrt(2) = {self._penalty(n)}")
        if float(np.asarray(ts.discount)) != 0.0:
            return ("invalid_move_discount", f"discount {float(np.asarray(ts.discount))} != 0 on the terminal step")
        for f in PROBLEM_FIELDS:
            if not np.array_equal(np.asarray(getattr(ps, f)), np.asarray(getattr(s, f))):
                return ("invalid_move_changed_state", f"field {f} changed on an invalid move: {np.asarray(getattr(ps, f)).tolist()} -> {np.asarray(getattr(s, f)).tolist()}")
        return None

    # ---- C06 -----------------------------------------------------------------------------------
    def constraints(self, hist, env, cfg):
        n = cfg["n"]
        steps = [r for r in hist[1:] if not r.post_terminal]
        acts = [int(r.action) for r in steps]
        s = hist[-1].state
        if len(set(acts)) != len(acts):
            dup = [a for i, a in enumerate(acts) if a in acts[:i]][0]
            return ("city_visited_twice", f"legal play visited city {dup} twice: actions {acts}")
        traj = np.asarray(s.trajectory)
        want = np.full(n, -1, dtype=np.int64)
        want[:len(acts)] = acts[:n]
        if not np.array_equal(traj, want):
            return ("trajectory_differs_from_history", f"trajectory {traj.tolist()} but the actions played were {acts}")
        if int(s.num_visited) != len(acts):
            return ("num_visited_differs_from_history", f"num_visited {int(s.num_visited)} after {len(acts)} legal visits")
        vm = np.zeros(n, bool)
        vm[acts] = True
        if not np.array_equal(np.asarray(s.visited_mask).astype(bool), vm):
            return ("visited_mask_differs_from_history", f"visited_mask {np.flatnonzero(np.asarray(s.visited_mask)).tolist()} but cities visited were {sorted(acts)}")
        if acts and int(s.position) != acts[-1]:
            return ("position_differs_from_history", f"position {int(s.position)} but the last city visited was {acts[-1]}")
        if not np.array_equal(np.asarray(s.coordinates), np.asarray(hist[0].state.coordinates)):
            return ("coordinates_changed", "city coordinates differ from those of the reset state")
        if steps and int(hist[-1].ts.step_type) == 2 and len(acts) != n:
            return ("ended_with_incomplete_tour", f"episode ended under legal play with {len(acts)}/{n} cities visited")
        return None

    # ---- C08 -----------------------------------------------------------------------------------
    @staticmethod
    def _tour_length(xy: np.ndarray, route: List[int]) -> float:
        return sum(_dist(xy, route[i], route[(i + 1) % len(route)]) for i in range(len(route)))

    def objective(self, hist, env, cfg):
        s = hist[-1].state
        route = self._route(s)
        if len(route) != cfg["n"] or sorted(route) != list(range(cfg["n"])):
            return None  # the tour is not complete: the objective is undefined
        return -self._tour_length(np.asarray(s.coordinates), route)

    def sparse_twin(self, c):
        d = dict(c)
        d["rew"] = "sparse" if c["rew"] == "dense" else "dense"
        d["id"] = f"{c['id']}~{d['rew']}"
        return d

    # ---- C09 -----------------------------------------------------------------------------------
    def model_step(self, ps, action, s, ts, env, cfg):
        n = cfg["n"]
        a = int(action)
        route = self._route(ps)
        xy = np.asarray(ps.coordinates)
        if a in route:  # invalid: terminates with the penalty; the state is not judged here (C05 does)
            want_r, done = self._penalty(n), True
        else:
            new_route = route + [a]
            done = len(new_route) == n
            if cfg["rew"] == "dense":
                want_r = 0.0 if not route else -_dist(xy, route[-1], a)
                if done:
                    want_r -= _dist(xy, a, new_route[0])
            else:
                want_r = -self._tour_length(xy, new_route) if done else 0.0
            traj = np.full(n, -1, dtype=np.int64)
            traj[:len(new_route)] = new_route
            if not np.array_equal(np.asarray(s.trajectory), traj):
                return ("trajectory", f"trajectory {np.asarray(s.trajectory).tolist()} expected {traj.tolist()}")
            if int(s.position) != a:
                return ("position", f"position {int(s.position)} expected {a}")
            if int(s.num_visited) != len(new_route):
                return ("num_visited", f"num_visited {int(s.num_visited)} expected {len(new_route)}")
            vm = np.zeros(n, bool)
            vm[new_route] = True
            if not np.array_equal(np.asarray(s.visited_mask).astype(bool), vm):
                return ("visited_mask", f"visited {np.flatnonzero(np.asarray(s.visited_mask)).tolist()} expected {sorted(new_route)}")
            if not np.array_equal(np.asarray(s.coordinates), xy):
                return ("coordinates", "coordinates changed during a step")
        if not _close(float(ts.reward), want_r):
            return ("reward", f"reward {float(ts.reward)} expected {want_r} ({cfg['rew']}, route {route} + {a})")
        if (int(ts.step_type) == 2) != done:
            return ("termination", f"step_type {int(ts.step_type)} but the rules say done={done} (route {route} + {a}, {n} cities)")
        return None

    # ---- C11 -----------------------------------------------------------------------------------
    def end_cause(self, ps, action, s, ts, env, cfg):
        route = self._route(ps)
        if int(action) in route:
            return "invalid_action"
        if len(route) + 1 == cfg["n"]:
            return "all_cities_visited"
        return None

    # ---- reach probes ----------------------------------------------------------------------------
    def events(self, ps, action, s, ts, env, cfg):
        n = int(np.asarray(s.trajectory).shape[0])
        if ps is None:
            return (["reset_two_cities"] if n == 2 else []) + (["reset_sparse_reward"] if cfg.get("rew") == "sparse" else [])
        a, route = int(action), self._route(ps)
        if a in route:
            return ["end_invalid_city_revisited"] + (["invalid_reselects_current_city"] if a == route[-1] else []) \
                + (["invalid_reselects_start_city"] if a == route[0] and len(route) > 1 else []) \
                + (["invalid_with_one_city_left"] if len(route) == n - 1 else [])
        ev = []
        if not route:
            ev.append("first_city_chosen")
        if len(route) + 1 == n:
            ev.append("end_last_city_tour_complete")
        elif len(route) + 2 == n:
            ev.append("one_city_left")
        return ev

    # ---- C12 -----------------------------------------------------------------------------------
    def observe(self, s, obs, env, cfg):
        if not np.array_equal(np.asarray(obs.coordinates), np.asarray(s.coordinates)):
            return ("coordinates", "obs.coordinates != state.coordinates")
        if np.asarray(obs.position).shape != () or int(obs.position) != int(s.position):
            return ("position", f"obs.position {np.asarray(obs.position).tolist()} vs state.position {int(s.position)}")
        if not np.array_equal(np.asarray(obs.trajectory), np.asarray(s.trajectory)):
            return ("trajectory", f"obs.trajectory {np.asarray(obs.trajectory).tolist()} vs state {np.asarray(s.trajectory).tolist()}")
        can = ~np.asarray(s.visited_mask).astype(bool)  # "whether a city can be visited"
        m = np.asarray(obs.action_mask)
        if m.shape != can.shape or not np.array_equal(m.astype(bool), can):
            return ("action_mask", f"obs.action_mask {m.astype(int).tolist()} vs unvisited cities {can.astype(int).tolist()}")
        return None

    # ---- policies ------------------------------------------------------------------------------
    def policy_complete(self, s, env, rng, legal):
        """Nearest unvisited city (any legal play completes the tour; this gives short tours)."""
        if legal is None or not legal.any():
            return None
        route = self._route(s)
        idx = np.flatnonzero(legal)
        if not route:
            return int(idx[int(rng.integers(0, len(idx)))])
        xy = np.asarray(s.coordinates)
        return int(min(idx, key=lambda c: _dist(xy, route[-1], c)))

    def policy_survive(self, s, env, rng, legal):
        """Farthest unvisited city (long tours)."""
        if legal is None or not legal.any():
            return None
        route = self._route(s)
        idx = np.flatnonzero(legal)
        if not route:
            return int(idx[int(rng.integers(0, len(idx)))])
        xy = np.asarray(s.coordinates)
        return int(max(idx, key=lambda c: _dist(xy, route[-1], c)))
