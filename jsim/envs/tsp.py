from jsim.envs.base import Adapter
from jsim.envs._mk import cfg


class A(Adapter):
    name = "TSP"
    mask_mode = "flat"
    terminate_on_invalid = True

    def configs(self):
        return [cfg("n20", True, n=20, rew="dense"), cfg("n4sparse", True, n=4, rew="sparse"), cfg("n9", n=9, rew="dense"), cfg("n2sparse", n=2, rew="sparse")]

    def build(self, c):
        from jumanji.environments import TSP
        from jumanji.environments.routing.tsp import generator as G
        from jumanji.environments.routing.tsp import reward as R
        rf = R.DenseReward() if c["rew"] == "dense" else R.SparseReward()
        return TSP(generator=G.UniformGenerator(num_cities=c["n"]), reward_fn=rf)

    def horizon(self, env, c):
        return c["n"]
