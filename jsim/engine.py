"""Engine: fan tasks out to fresh interpreters, aggregate, write evidence, report violations."""
from __future__ import annotations

import json
import multiprocessing as mp
import os
import sys
import time
from concurrent.futures import ProcessPoolExecutor, as_completed
from typing import Any, Dict, List, Tuple

import numpy as np

from jsim import envs, props, util

ROOT = os.environ.get("JSIM_ROOT", "/verif")
OUT = os.environ.get("JSIM_OUT", ROOT)  # evidence/ and replays/ go here (development runs redirect it)


def load_known() -> Dict[str, Any]:
    p = os.path.join(ROOT, "known_findings.json")
    if not os.path.exists(p):
        return {"findings": [], "fixed": []}
    with open(p) as f:
        return json.load(f)


def finding_matches(f: Dict[str, Any], v: Dict[str, Any]) -> bool:
    """A listed finding is keyed narrowly: property, env, monitor, class (prefix) and config predicate."""
    if f.get("property") != v["property"] or f.get("env") != v["env"] or f.get("monitor") != v["monitor"]:
        return False
    if not v["class"].startswith(f.get("class", "")):
        return False
    pred = f.get("config", {})
    for k, want in pred.items():
        if v["config"].get(k) != want:
            return False
    return True


def build_tasks(pid: str, tier: str, seed: int, budget_s: float, workers: int) -> List[Dict[str, Any]]:
    prop = props.get(pid)
    tasks: List[Dict[str, Any]] = []
    only = [x for x in os.environ.get("VERIF_ENVS", "").split(",") if x]
    for name in prop.env_names():
        if only and name not in only:
            continue
        ad = envs.get(name)
        for cfg in prop.select_configs(ad, tier):
            if cfg.get("props") and pid not in cfg["props"]:
                continue  # a configuration reserved for some properties
            for shard in range(prop.shards(ad, cfg, tier)):
                t = {"prop": pid, "env": name, "cfg": cfg, "shard": shard, "seed": seed, "tier": tier,
                     "cost": prop.cost(ad, cfg)}
                if tier == "quick":
                    t["runs"] = int(os.environ.get("VERIF_RUNS", "0") or 0) or prop.runs_for(ad, cfg, tier)
                    t["hard_timeout"] = 600
                tasks.extend(prop.expand(t))
    if tier == "thorough":
        # wall-clock only decides how many run indices get executed; run i always has the same sub-seed
        rounds = max(1, int(np.ceil(len(tasks) / workers)))
        per = max(20.0, budget_s / rounds - 25.0)
        for t in tasks:
            t["wall"] = per
            t["hard_timeout"] = int(per * 3 + 600)
    tasks.sort(key=lambda t: -t["cost"])
    return tasks


def run_property(pid: str, tier: str, seed: int, budget_s: float, workers: int) -> int:
    t0 = time.time()
    prop = props.get(pid)
    print(f"jsim: property={pid} tier={tier} VERIF_SEED={seed} workers={workers}", flush=True)
    tasks = build_tasks(pid, tier, seed, budget_s, workers)
    results: List[Dict[str, Any]] = []
    ctx = mp.get_context("spawn")
    from jsim.worker import run_task

    # one fresh interpreter per task: no process-global state (module caches, jit caches, registries) is
    # shared between tasks, so a task's result cannot depend on which tasks ran before it in the same worker
    with ProcessPoolExecutor(max_workers=min(workers, max(1, len(tasks))), mp_context=ctx, max_tasks_per_child=1) as ex:
        futs = {ex.submit(run_task, t): t for t in tasks}
        for fut in as_completed(futs):
            t = futs[fut]
            try:
                results.append(fut.result())
            except BaseException as e:  # noqa: BLE001  (BrokenProcessPool etc.)
                results.append({"task": {"prop": pid, "env": t["env"], "cfg": t["cfg"]["id"], "shard": t["shard"]},
                                "harness_error": f"worker died: {type(e).__name__}: {e}"})
    if os.environ.get("JSIM_DIGEST_ONLY"):
        from jsim.selftest import digest_of_results

        print("DIGEST", digest_of_results(results))
    return finish(pid, tier, seed, prop, results, time.time() - t0)


def finish(pid: str, tier: str, seed: int, prop: Any, results: List[Dict[str, Any]], wall: float) -> int:
    results.sort(key=lambda r: (str(r["task"].get("env")), str(r["task"].get("cfg")), int(r["task"].get("shard") or 0)))
    errors = [r for r in results if "harness_error" in r]
    ok = [r for r in results if "harness_error" not in r]

    def merge(key: str) -> Dict[str, int]:
        out: Dict[str, int] = {}
        for r in ok:
            for k, v in r.get(key, {}).items():
                out[k] = out.get(k, 0) + int(v)
        return dict(sorted(out.items()))

    digests = set()
    nontriv = set()
    for r in ok:
        for d, nt in zip(r["digests"], r["nontrivial"]):
            digests.add((r["task"]["env"], r["task"]["cfg"], d))
            if nt:
                nontriv.add((r["task"]["env"], r["task"]["cfg"], d))
    states = 0
    by_cfg: Dict[Tuple[str, str], Any] = {}
    for r in ok:
        k = (r["task"]["env"], r["task"]["cfg"])
        if r.get("states"):
            arr = np.frombuffer(r["states"], dtype=np.uint64)
            by_cfg[k] = arr if k not in by_cfg else np.union1d(by_cfg[k], arr)
        else:
            states += int(r.get("n_states", 0))
    states += sum(len(np.unique(a)) for a in by_cfg.values())
    runs = sum(r["runs"] for r in ok)
    steps = sum(r["steps"] for r in ok)
    all_viol = [v for r in ok for v in r["violations"]] + prop.post(ok, seed)
    known = load_known()
    unlisted, listed = [], []
    for v in all_viol:
        hit = [f for f in known.get("findings", []) if finding_matches(f, v)]
        (listed if hit else unlisted).append((v, hit))
    # ---- report -------------------------------------------------------------------------------
    rc = 0
    os.makedirs(os.path.join(OUT, "replays"), exist_ok=True)
    seen_known = set()
    for v, hit in listed:
        fid = hit[0].get("id", "?")
        if fid not in seen_known:
            seen_known.add(fid)
            print(f"KNOWN-FINDING: property={pid} {fid}: {hit[0].get('what', '')} [{v['env']}/{v['config']['id']}: {v['detail'][:160]}]")
    for n, (v, _) in enumerate(unlisted):
        path = os.path.join(OUT, "replays", f"{pid}_{v['env']}_{v['config']['id']}_{seed}_{n}.json".replace("+", "_"))
        v = dict(v)
        v["repo_head"] = repo_head()
        with open(path, "w") as f:
            json.dump(v, f, indent=1, sort_keys=True)
        print(f"VIOLATION property={pid} replay={path}")
        print(f"  env={v['env']} config={v['config']['id']} monitor={v['monitor']} class={v['class']} ops={n_ops(v['ops'])}: {v['detail'][:300]}")
        rc = 1
    det_bad = [r["task"] for r in ok if r.get("det_ok") is False]
    for r in errors:
        print(f"HARNESS-ERROR property={pid} task={r['task']}: {r['harness_error'][:3000]}", file=sys.stderr)
    if det_bad:
        print(f"HARNESS-ERROR property={pid}: determinism probe failed for {det_bad}", file=sys.stderr)
    samples = [s for r in ok for s in r["samples"]][:3]
    probes = merge("probes")
    if tier == "thorough":
        for name in getattr(prop, "expected_probes", []):
            if probes.get(name, 0) == 0:
                print(f"WARNING: probe {name} stuck at zero")
    ev = {
        "property_id": pid, "tier": tier, "seed": seed, "level": prop.level,
        "coverage": {
            "evaluations": int(runs), "distinct_nontrivial": int(len(nontriv)), "distinct_runs": int(len(digests)),
            "rule": prop.rule, "samples": samples,
            "sim_steps": int(steps), "runs_per_hour": round(runs / max(wall, 1e-9) * 3600.0, 1),
            "seeds": {"VERIF_SEED": seed, "sub_seeds": "SeedSequence([seed, crc32(property), crc32(env), crc32(config), shard, run])"},
            "faults_fired": merge("faults"), "policies": merge("policies"), "transports": merge("transports"),
            "monitor_evaluations": merge("checks"), "probes": probes,
            "configs_covered": sorted({f"{r['task']['env']}/{r['task']['cfg']}" for r in ok}),
            "distinct_states": int(states),
            "distinct_states_measure": "SHA-1 of canonical bytes of all state leaves except PRNG keys, per (env, config)",
            "components": {"real": ["jumanji environments, generators, reward functions, specs, types, wrappers (imported from /repo)",
                                     "JAX/XLA:CPU"], "stub": getattr(prop, "stubs", ["agents/policies (simulated clients)"])},
            "determinism_probe": {"tasks_checked": sum(1 for r in ok if r.get("det_ok") is not None), "mismatches": len(det_bad)},
            "known_findings_seen": sorted(seen_known), "harness_errors": len(errors), "tasks": len(results),
        },
        "assumptions": prop.assumptions,
        "wall_s": round(wall, 2), "violations": len(unlisted),
    }
    os.makedirs(os.path.join(OUT, "evidence"), exist_ok=True)
    with open(os.path.join(OUT, "evidence", f"{pid}.json"), "w") as f:
        json.dump(util.jsonable(ev), f, indent=1, sort_keys=True)
    print(f"jsim: property={pid} runs={runs} steps={steps} distinct_nontrivial={len(nontriv)} states={states} "
          f"violations={len(unlisted)} known={len(seen_known)} harness_errors={len(errors)} wall={wall:.1f}s")
    if rc == 1:
        return 1
    if errors or det_bad:
        return 2
    return 0


def n_ops(ops: Any) -> int:
    if isinstance(ops, dict):
        return sum(len(v) for v in ops.values() if isinstance(v, list))
    return len(ops)


def repo_head() -> str:
    try:
        import subprocess

        return subprocess.run(["git", "-C", "/repo", "rev-parse", "HEAD"], capture_output=True, text=True, timeout=10).stdout.strip()
    except Exception:  # noqa: BLE001
        return "?"


def replay(path: str) -> int:
    """Re-execute a replay file verbatim in this (fresh) interpreter."""
    with open(path) as f:
        v = json.load(f)
    from jsim.worker import _init_jax

    _init_jax()
    prop = props.get(v["property"])
    from jsim.core import ConstructionRaised

    try:
        return _replay(prop, v, path)
    except ConstructionRaised as ce:
        if str(v.get("class", "")).startswith("construction_raised"):
            print(f"VIOLATION property={v['property']} replay={path}")
            print(f"  env={v['env']} config={v['config']['id']} monitor=execution class=construction_raised:{type(ce.orig).__name__}: {str(ce.orig)[:300]}")
            return 1
        raise


def _replay(prop: Any, v: Dict[str, Any], path: str) -> int:
    if str(v.get("class", "")).startswith("construction_raised"):
        # the recorded violation is the construction itself: build the system the way the task did
        if prop.custom:
            prop.replay(dict(v, ops=v.get("ops") or [], construction_only=True), path)
        else:
            from jsim.core import Sys, construct

            construct(Sys, envs.get(v["env"]), v["config"])
        print(f"replay: no violation of class {v['monitor']}/{v['class']} reproduced from {path}")
        return 0
    if prop.custom:
        return prop.replay(v, path)
    from jsim.core import Sys, construct, replay_violates

    ad = envs.get(v["env"])
    sysm = construct(Sys, ad, v["config"])
    monitors = [m for m in prop.monitors(ad) if m.applies(ad)]
    got = replay_violates(sysm, v["property"], monitors, v["ops"], (v["monitor"], v["class"]))
    if got is None:
        print(f"replay: no violation of class {v['monitor']}/{v['class']} reproduced from {path}")
        return 0
    print(f"VIOLATION property={v['property']} replay={path}")
    print(f"  env={v['env']} config={v['config']['id']} monitor={got.monitor} class={got.cls}: {got.detail[:300]}")
    return 1
