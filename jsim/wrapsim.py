"""Simulation of the supervisor / batching wrappers (C13, C14).

System: B logical clients (batch elements = nodes), each with its own episode stream, all served by
one wrapper stack around one real env. The scheduler draws *segments*:

  ["SOLO", i, action]                one client steps alone (jit)            -> staggers the clocks
  ["JIT",  [a_0 .. a_{B-1}]]          every client steps, one jit call each
  ["EAGER",[a_0 .. a_{B-1}]]          same, plain Python execution of wrapper.step
  ["VMAP", [a_0 .. a_{B-1}]]          all clients in one batched call
  ["SCAN", [[a_0..]_t=0 .. ]]          k batched/solo steps rolled into one lax.scan

and per step a *kill set* (which clients are pushed to end their episode now: illegal action in
terminate-on-invalid envs, completing/timeout otherwise). The oracle is the reference composition
written from the property text, computed per client with the unwrapped env:

  (s', ts') = env.step(s, a);  not LAST -> wrapper returns exactly that (+ extras.next_obs)
  LAST -> state = env.reset(k)[0] with k freshly derived from s'.key, observation = reset obs,
          step_type / reward / discount / extras = those of ts' (+ extras.next_obs = ts'.observation)
"""
from __future__ import annotations

import time
from typing import Any, Dict, List, Optional, Tuple

import numpy as np

from jsim import util
from jsim.core import Stats, Violation, shrink

CONSTANT_KEY_GENS = ("toy", "csv", "dummy", "toyrot", "toynorot", "simple", "boxed")
EAGER_OK = {"Game2048", "SlidingTilePuzzle", "Maze", "Snake", "TSP", "Knapsack", "Minesweeper", "GraphColoring", "RubiksCube", "CVRP",
            "Tetris", "Sudoku"}


def stack(trees: List[Any]) -> Any:
    import jax
    import jax.numpy as jnp

    return jax.tree_util.tree_map(lambda *xs: jnp.stack([jnp.asarray(x) for x in xs]), *trees)


def unstack(tree: Any, n: int) -> List[Any]:
    import jax

    return [jax.tree_util.tree_map(lambda x: x[i], tree) for i in range(n)]


class WrapSys:
    def __init__(self, adapter: Any, cfg: Dict[str, Any], flag: bool, scan_len: int, wide: bool = False):
        import jax
        from jumanji.wrappers import AutoResetWrapper, VmapAutoResetWrapper, VmapWrapper

        self.jax = jax
        self.adapter, self.cfg, self.flag, self.k = adapter, cfg, flag, scan_len
        env = adapter.build(cfg)
        self.env = env
        self.dtype = env.action_spec.dtype
        # "wide" client: integer actions arrive as int32 (what argmax / categorical / randint produce) although the spec declares a
        # narrower integer type; the unwrapped environment is given the very same arrays, so wrapper and reference stay comparable
        self.wide = bool(wide) and np.issubdtype(np.dtype(self.dtype), np.integer) and np.dtype(self.dtype).itemsize < 4
        if self.wide:
            self.dtype = np.dtype(np.int32)
        self.mode = "C13"  # set by the task (C13 / C14): the property a raise of the unwrapped env is reported under

        def answered(fn: Any, what: str) -> Any:
            def g(*args: Any) -> Any:
                try:
                    return fn(*args)
                except Exception as e:  # noqa: BLE001  (a well-formed request to the *unwrapped* environment)
                    raise Violation(self.mode, adapter.name, "execution", "request_raised:" + type(e).__name__,
                                    f"the unwrapped environment's {what} raised {type(e).__name__}: {str(e)[:300]}")
            return g

        self.ref_step = answered(jax.jit(env.step), "step")
        self.ref_reset = answered(jax.jit(env.reset), "reset")
        self.W = AutoResetWrapper(env, next_obs_in_extras=flag)
        # the same environment object behind a wrapper with the other option, and the usual
        # `@partial(jit, static_argnums=0) def step(env, state, action)` idiom: jit keys its cache on the static argument, so the
        # two wrappers must not be confused with one another (STATIC segments ask the other wrapper first)
        self.W_other = AutoResetWrapper(env, next_obs_in_extras=not flag)
        self.static_step = jax.jit(lambda e, s, a: e.step(s, a), static_argnums=0)
        self.VW = VmapWrapper(env)
        self.VAR = VmapAutoResetWrapper(env, next_obs_in_extras=flag)
        self.VWAR = VmapWrapper(self.W)
        self._jits: Dict[str, Any] = {}

    def jit(self, name: str, fn: Any) -> Any:
        if name not in self._jits:
            self._jits[name] = self.jax.jit(fn)
        return self._jits[name]

    def act(self, a: Any) -> Any:
        import jax.numpy as jnp

        return jnp.asarray(a, dtype=self.dtype)

    # reference composition -----------------------------------------------------------------------
    def candidates(self, key: Any) -> List[Tuple[str, Any]]:
        jr = self.jax.random
        out = [("split2[0]", jr.split(key)[0]), ("split2[1]", jr.split(key)[1])]
        s3 = jr.split(key, 3)
        out += [(f"split3[{i}]", s3[i]) for i in range(3)]
        out += [("fold_in0", jr.fold_in(key, 0)), ("fold_in1", jr.fold_in(key, 1))]
        return out


def choose_action(ws: WrapSys, s_np: Any, ts_np: Any, rng: np.random.Generator, kill: bool, stats: Stats) -> Any:
    ad, env = ws.adapter, ws.env
    drive = bool(ws.cfg.get("drive"))  # configurations in which clients play to win (episodes end by completion, repeatedly)
    if ad.mask_mode is None:
        if kill or drive:
            a = ad.safe_policy("complete", s_np, env, rng, None)
            if a is not None:
                return a
        if not kill:
            a = ad.safe_policy("survive", s_np, env, rng, None)
            if a is not None and rng.random() < 0.5:
                return a
        return ad.inspec_action(env, rng)
    envmask = ad.env_mask(ts_np.observation)
    b = ad.legal_bounds(s_np, env)
    lo, hi = (envmask, envmask) if b is None else b
    if lo is None:
        return ad.inspec_action(env, rng)
    legal = lo if lo.any() else hi
    if drive and rng.random() < 0.97:
        a = ad.safe_policy("complete", s_np, env, rng, legal)
        if a is not None:
            return a
    if kill:
        if ad.terminate_on_invalid and (~hi).any():
            bad = ~hi
            stats.inc(stats.faults, "ILLEGAL")
            if ad.mask_mode == "per_agent":
                mix = np.where(bad.any(axis=1, keepdims=True), bad, legal)
                return ad.pick(mix, rng)[0]
            return ad.pick(bad, rng)[0]
        a = ad.safe_policy("complete", s_np, env, rng, legal)
        if a is not None:
            return a
    r = rng.random()
    if r < 0.15:
        return ad.inspec_action(env, rng)
    if r < 0.35:
        a = ad.safe_policy("survive", s_np, env, rng, legal)
        if a is not None:
            return a
    return ad.pick(legal, rng)[0]


class WrapRun:
    """Executes a list of segments against one wrapper stack and checks it against the reference."""

    def __init__(self, ws: WrapSys, prop: str, mode: str, stats: Stats):
        self.ws, self.prop, self.mode, self.stats = ws, prop, mode, stats
        self.B = 0
        self.ref: List[Any] = []      # per client: reference (jax) state == what the wrapper must hold
        self.cur: List[Any] = []      # per client: the wrapper's own state
        self.cur_ts: List[Any] = []   # per client: last np timestep seen by the client
        self.reset_keys: List[List[Tuple[int, ...]]] = []
        self.instances: List[List[int]] = []
        self.resets_per_step: List[int] = []

    def fail(self, monitor: str, cls: str, detail: str) -> None:
        raise Violation(self.prop, self.ws.adapter.name, monitor, cls, detail)

    def guarded(self, where: str, fn: Any, *args: Any) -> Any:
        """Call into the wrapper stack. The unwrapped env answers the same requests (the reference composition is computed
        from them right afterwards), so a wrapper that raises - typically lax.cond / scan rejecting reset and step outputs
        of different structure - does not return what the property says it returns."""
        try:
            return fn(*args)
        except Violation:
            raise
        except Exception as e:  # noqa: BLE001
            self.fail("autoreset_vs_reference" if self.mode == "C13" else "vmapautoreset_vs_vmap_autoreset", "wrapper_raised:" + type(e).__name__,
                      f"{where}: the wrapper raised {type(e).__name__}: {str(e)[:300]}")

    # ---- reference -------------------------------------------------------------------------------
    def expected(self, s: Any, a: Any) -> Tuple[Any, Any, bool, Any]:
        ws = self.ws
        s1, ts1 = ws.ref_step(s, ws.act(a))
        last = int(np.asarray(ts1.step_type)) == 2
        extras = dict(ts1.extras) if ts1.extras else {}
        if ws.flag:
            extras["next_obs"] = ts1.observation
        if not last:
            return s1, ts1.replace(extras=extras), False, None
        return s1, ts1.replace(extras=extras), True, s1.key

    def compare(self, i: int, where: str, out_s: Any, out_ts: Any, s: Any, a: Any) -> None:
        """out_* = what the wrapper stack returned for client i; (s, a) = the request."""
        ws = self.ws
        exp_s, exp_ts, last, tkey = self.expected(s, a)
        o_s, o_ts = util.to_np((out_s, out_ts))
        e_ts = util.to_np(exp_ts)
        self.stats.check("wrapper_steps_compared")
        for f in ("step_type", "reward", "discount"):
            if not util.close(getattr(o_ts, f), getattr(e_ts, f)):
                self.fail("autoreset_vs_reference", f"{f}_differs", f"{where} client {i}: {f} {np.asarray(getattr(o_ts, f)).tolist()} vs env.step's "
                          f"{np.asarray(getattr(e_ts, f)).tolist()} (LAST={last})")
        d = self._extras_diff(o_ts.extras, e_ts.extras)
        if d:
            self.fail("autoreset_vs_reference", "extras_differ" + ("_next_obs" if "next_obs" in d[0] else ""),
                      f"{where} client {i} (LAST={last}): {d[:3]}")
        if not last and ws.cfg.get("drive"):
            try:  # reach in the play-to-win / work configurations: which rare transitions happen inside the wrappers
                for n in ws.adapter.events(util.to_np(s), a, util.to_np(exp_s), e_ts, ws.env, ws.cfg) or []:
                    if any(k in str(n) for k in ("deliver", "fruit_eaten", "picked_up", "put_down", "solved")):
                        self.stats.probe(f"ev:{ws.adapter.name}:{n}")
            except Exception:  # noqa: BLE001
                self.stats.probe("events_hook_error")
        if not last:
            d = util.tree_diff(o_s, util.to_np(exp_s))
            if d:
                self.fail("autoreset_vs_reference", "mid_state_differs", f"{where} client {i}: non-terminal step but state differs from env.step: {d[:3]}")
            d = util.tree_diff(o_ts.observation, e_ts.observation)
            if d:
                self.fail("autoreset_vs_reference", "mid_observation_differs", f"{where} client {i}: {d[:3]}")
            self.ref[i] = exp_s
            return
        # LAST: the state must be reset(k) for a key freshly derived from the terminal state's key
        self.stats.probe("auto_resets")
        try:  # reach: how the episodes of this workload end (never part of a verdict)
            for n in ws.adapter.events(util.to_np(s), a, util.to_np(exp_s), e_ts, ws.env, ws.cfg) or []:
                if str(n).startswith("end"):
                    self.stats.probe(f"ev:{ws.adapter.name}:{n}")
        except Exception:  # noqa: BLE001
            self.stats.probe("events_hook_error")
        match = None
        for name, k in ws.candidates(tkey):
            s0, ts0 = ws.ref_reset(k)
            if not util.tree_diff(o_s, util.to_np(s0)):
                match = (name, k, s0, ts0)
                break
        if match is None:
            s_same, _ = ws.ref_reset(tkey)
            if not util.tree_diff(o_s, util.to_np(s_same)):
                self.fail("autoreset_vs_reference", "reset_key_not_fresh", f"{where} client {i}: state after LAST equals reset(terminal state.key) - "
                          "the key was reused, not freshly derived")
            if not util.tree_diff(o_s, util.to_np(exp_s)):
                self.fail("autoreset_vs_reference", "no_reset_after_last", f"{where} client {i}: LAST but the returned state is the terminal state")
            self.fail("autoreset_vs_reference", "reset_state_not_from_derived_key", f"{where} client {i}: state after LAST is not env.reset(k) for any "
                      "k derived from the terminal state's key (split/fold_in)")
        name, k, s0, ts0 = match
        self.stats.probe("reset_key_" + name)
        d = util.tree_diff(o_ts.observation, util.to_np(ts0.observation))
        if d:
            self.fail("autoreset_vs_reference", "reset_observation_differs", f"{where} client {i}: observation after LAST is not reset's: {d[:3]}")
        self.reset_keys[i].append(tuple(int(x) for x in np.asarray(k).reshape(-1)))
        self.instances[i].append(util.state_digest(util.to_np(s0)))
        self.ref[i] = s0

    def _extras_diff(self, got: Any, want: Any) -> List[str]:
        got = dict(got) if got else {}
        want = dict(want) if want else {}
        if sorted(got) != sorted(want):
            return [f"extras keys {sorted(got)} vs expected {sorted(want)}"]
        out = []
        for k in sorted(want):
            d = util.tree_diff(got[k], want[k])
            if d:
                out.append(f"extras[{k!r}] (next_obs must be the true successor observation): {d[0]}" if k == "next_obs" else f"extras[{k!r}]: {d[0]}")
        return out

    # ---- execution -------------------------------------------------------------------------------
    def do_reset(self, keys: List[int]) -> None:
        ws, jax = self.ws, self.ws.jax
        self.B = len(keys)
        jkeys = [jax.random.PRNGKey(int(k)) for k in keys]
        self.reset_keys = [[tuple(int(x) for x in np.asarray(k).reshape(-1))] for k in jkeys]
        self.instances = [[] for _ in keys]
        if self.mode == "C13":
            outs = [self.guarded("AutoResetWrapper.reset", ws.jit("w_reset", ws.W.reset), k) for k in jkeys]
            states, tss = [o[0] for o in outs], [o[1] for o in outs]
        else:
            bs, bts = self.guarded("VmapAutoResetWrapper.reset", ws.jit("var_reset", ws.VAR.reset), stack(jkeys))
            bs2, bts2 = self.guarded("VmapWrapper(AutoResetWrapper).reset", ws.jit("vwar_reset", ws.VWAR.reset), stack(jkeys))
            d = util.tree_diff(util.to_np((bs, bts)), util.to_np((bs2, bts2)))
            if d:
                self.fail("vmapautoreset_vs_vmap_autoreset", "reset_differs", f"reset: VmapAutoResetWrapper vs VmapWrapper(AutoResetWrapper): {d[:3]}")
            vs, vts = self.guarded("VmapWrapper.reset", ws.jit("vw_reset", ws.VW.reset), stack(jkeys))
            self.vw_state = vs
            for i, (s_i, ts_i) in enumerate(zip(unstack(vs, self.B), unstack(vts, self.B))):
                rs, rts = ws.ref_reset(jkeys[i])
                d = util.tree_diff(util.to_np((s_i, ts_i)), util.to_np((rs, rts)))
                if d:
                    self.fail("vmap_vs_single", "reset_index_differs", f"VmapWrapper.reset index {i} vs env.reset(key_{i}): {d[:3]}")
            states, tss = unstack(bs, self.B), unstack(bts, self.B)
            self.batched = bs
        for i, (s_i, ts_i) in enumerate(zip(states, tss)):
            rs, rts = ws.ref_reset(jkeys[i])
            d = util.tree_diff(util.to_np(s_i), util.to_np(rs))
            if d:
                self.fail("autoreset_vs_reference", "reset_state_differs", f"wrapper.reset client {i}: {d[:3]}")
            o = util.to_np(ts_i)
            e = util.to_np(rts)
            for f in ("step_type", "reward", "discount"):
                if not util.close(getattr(o, f), getattr(e, f)):
                    self.fail("autoreset_vs_reference", f"reset_{f}_differs", f"wrapper.reset client {i}")
            if util.tree_diff(o.observation, e.observation):
                self.fail("autoreset_vs_reference", "reset_observation_differs_at_reset", f"wrapper.reset client {i}")
            if ws.flag and ("next_obs" not in (o.extras or {}) or util.tree_diff(o.extras["next_obs"], e.observation)):
                self.fail("autoreset_vs_reference", "extras_differ_next_obs", f"wrapper.reset client {i}: extras['next_obs'] missing or != observation")
            self.instances[i].append(util.state_digest(util.to_np(rs)))
        self.ref = [ws.ref_reset(k)[0] for k in jkeys]
        self.cur = states
        self.cur_ts = [util.to_np(t) for t in tss]

    def _after(self, i: int, s: Any, ts: Any) -> None:
        self.cur[i] = s
        self.cur_ts[i] = util.to_np(ts)
        self.stats.states.add(util.state_digest(util.to_np(s)))

    def do_segment(self, seg: List[Any]) -> None:
        ws, jax = self.ws, self.ws.jax
        kind = seg[0]
        self.stats.inc(self.stats.transports, kind)
        B = self.B
        if kind == "SOLO":
            i, a = int(seg[1]), seg[2]
            s, ts = self.guarded("AutoResetWrapper.step", ws.jit("w_step", ws.W.step), self.cur[i], ws.act(a))
            self.compare(i, "SOLO", s, ts, self.ref[i], a)
            self._after(i, s, ts)
            self.stats.steps += 1
            return
        if kind == "LOOKAHEAD":
            # one-step lookahead program: the client's (concrete) state is closed over and only the candidate actions are mapped,
            # vmap(lambda a: W.step(state, a))(candidates); every lane must equal W.step(state, candidate) asked the usual way.
            # The run does not advance.
            i, cands = int(seg[1]), seg[2]
            st = self.cur[i]
            bact = ws.act(np.asarray(cands))
            bs, bts = self.guarded("vmap(lambda a: AutoResetWrapper.step(state, a))", lambda b: jax.vmap(lambda a: ws.W.step(st, a))(b), bact)
            lanes = unstack(util.to_np((bs, bts)), len(cands))
            for j, a in enumerate(cands):
                one = util.to_np(self.guarded("AutoResetWrapper.step", ws.jit("w_step", ws.W.step), st, ws.act(a)))
                d = util.tree_diff(lanes[j], one)
                self.stats.check("lookahead_lanes_compared")
                if d:
                    self.fail("autoreset_vs_reference", "lookahead_lane_differs_from_step", f"client {i} candidate {j} (action {a}): {d}")
            return
        if kind in ("JIT", "EAGER", "STATIC"):
            acts = seg[1]
            n_last = 0
            if kind == "STATIC":
                self.guarded("jit(step, static_argnums=0)(other wrapper, ...)", ws.static_step, ws.W_other, self.cur[0], ws.act(acts[0]))
            for i in range(B):
                fn = ws.jit("w_step", ws.W.step) if kind == "JIT" else ws.W.step
                if kind == "STATIC":
                    fn = lambda s_, a_: ws.static_step(ws.W, s_, a_)  # noqa: E731
                s, ts = self.guarded("AutoResetWrapper.step (" + kind + ")", fn, self.cur[i], ws.act(acts[i]))
                before = len(self.reset_keys[i])
                self.compare(i, kind, s, ts, self.ref[i], acts[i])
                n_last += len(self.reset_keys[i]) - before
                self._after(i, s, ts)
            self.stats.steps += B
            self._count(n_last)
            return
        if kind == "VMAP":
            acts = seg[1]
            bstate = stack(self.cur)
            bact = ws.act(np.asarray(acts))
            if self.mode == "C13":
                bs, bts = self.guarded("vmap(AutoResetWrapper.step)", ws.jit("w_vstep", jax.vmap(ws.W.step)), bstate, bact)
            else:
                bs, bts = self.guarded("VmapAutoResetWrapper.step", ws.jit("var_step", ws.VAR.step), bstate, bact)
                bs2, bts2 = self.guarded("VmapWrapper(AutoResetWrapper).step", ws.jit("vwar_step", ws.VWAR.step), bstate, bact)
                d = util.tree_diff(util.to_np((bs, bts)), util.to_np((bs2, bts2)))
                self.stats.check("stack_pairs_compared")
                if d:
                    self.fail("vmapautoreset_vs_vmap_autoreset", "step_differs", f"VmapAutoResetWrapper vs VmapWrapper(AutoResetWrapper) on identical "
                              f"inputs: {d[:3]}")
                # (1) plain VmapWrapper slice i == unwrapped env on element i (inputs: the reference states)
                rb = stack(self.ref)
                vs, vts = self.guarded("VmapWrapper.step", ws.jit("vw_step", ws.VW.step), rb, bact)
                for i, (s_i, ts_i) in enumerate(zip(unstack(vs, B), unstack(vts, B))):
                    rs, rts = ws.ref_step(self.ref[i], ws.act(acts[i]))
                    d = util.tree_diff(util.to_np((s_i, ts_i)), util.to_np((rs, rts)))
                    self.stats.check("vmap_slices_compared")
                    if d:
                        self.fail("vmap_vs_single", "step_index_differs", f"VmapWrapper.step index {i} (of {B}) vs env.step on that element: {d[:3]}")
            n_last = 0
            for i, (s, ts) in enumerate(zip(unstack(bs, B), unstack(bts, B))):
                before = len(self.reset_keys[i])
                self.compare(i, "VMAP", s, ts, self.ref[i], acts[i])
                n_last += len(self.reset_keys[i]) - before
                self._after(i, s, ts)
            self.stats.steps += B
            self._count(n_last)
            return
        if kind == "SCAN":
            steps = seg[1]  # [k][B] actions
            k = len(steps)
            acts = ws.act(np.asarray(steps))  # (k, B, ...)
            if self.mode == "C13":
                def roll(s, a):  # one client
                    def body(c, x):
                        ns, ts = ws.W.step(c, x)
                        return ns, (ns, ts)
                    return jax.lax.scan(body, s, a)
                outs = []
                for i in range(B):
                    _, (ss, tss) = self.guarded("scan(AutoResetWrapper.step)", ws.jit(f"w_scan{k}", roll), self.cur[i], acts[:, i])
                    outs.append((ss, tss))
                per = [[(jax.tree_util.tree_map(lambda x: x[t], o[0]), jax.tree_util.tree_map(lambda x: x[t], o[1])) for o in outs] for t in range(k)]
            else:
                def rollb(s, a):
                    def body(c, x):
                        ns, ts = ws.VAR.step(c, x)
                        return ns, (ns, ts)
                    return jax.lax.scan(body, s, a)

                def rollb2(s, a):
                    def body(c, x):
                        ns, ts = ws.VWAR.step(c, x)
                        return ns, (ns, ts)
                    return jax.lax.scan(body, s, a)
                bstate = stack(self.cur)
                _, (ss, tss) = self.guarded("scan(VmapAutoResetWrapper.step)", ws.jit(f"var_scan{k}", rollb), bstate, acts)
                _, (ss2, tss2) = self.guarded("scan(VmapWrapper(AutoResetWrapper).step)", ws.jit(f"vwar_scan{k}", rollb2), bstate, acts)
                d = util.tree_diff(util.to_np((ss, tss)), util.to_np((ss2, tss2)))
                self.stats.check("stack_pairs_compared", k)
                if d:
                    self.fail("vmapautoreset_vs_vmap_autoreset", "scan_differs", f"{k}-step scan: VmapAutoResetWrapper vs VmapWrapper(AutoResetWrapper): {d[:3]}")
                per = []
                for t in range(k):
                    s_t = jax.tree_util.tree_map(lambda x: x[t], ss)
                    ts_t = jax.tree_util.tree_map(lambda x: x[t], tss)
                    per.append(list(zip(unstack(s_t, B), unstack(ts_t, B))))
            for t in range(k):
                n_last = 0
                for i in range(B):
                    s, ts = per[t][i]
                    before = len(self.reset_keys[i])
                    self.compare(i, f"SCAN[{t}]", s, ts, self.ref[i], steps[t][i])
                    n_last += len(self.reset_keys[i]) - before
                    self._after(i, s, ts)
                self._count(n_last)
            self.stats.steps += B * k
            return
        raise ValueError(kind)

    def _count(self, n_last: int) -> None:
        if n_last == 0:
            self.stats.probe("batch_none_reset")
        elif n_last == self.B:
            self.stats.probe("batch_all_reset")
        else:
            self.stats.probe("batch_some_reset")
        if n_last:
            self.stats.inc(self.stats.faults, "KILL_SET", n_last)

    def on_end(self) -> None:
        gen = str(self.ws.cfg.get("gen", "random"))
        if gen in CONSTANT_KEY_GENS:
            return
        for i, ks in enumerate(self.reset_keys):
            if len(set(ks)) != len(ks):
                self.fail("autoreset_history", "auto_reset_keys_repeat", f"client {i}: keys used by successive resets repeat: {ks[:4]}")
            self.stats.check("reset_key_histories")
        # ... and across the clients of the run: their episode streams started from different keys, so two automatic resets
        # from one and the same key mean that terminal states carry a key that does not depend on the episode
        auto = [k for ks in self.reset_keys for k in ks[1:]]
        if len(set(auto)) != len(auto):
            dup = [k for k in set(auto) if auto.count(k) > 1][0]
            self.fail("autoreset_history", "auto_reset_keys_repeat", f"automatic resets of different clients / episodes used the same key {dup}")


def render_check(ws: WrapSys, run: WrapRun, stats: Stats) -> None:
    """C14 (3): both batched wrappers hand element 0 of the batch to the inner env's render."""
    got: List[Any] = []
    env = ws.env
    had = "render" in env.__dict__
    old = env.__dict__.get("render")
    env.__dict__["render"] = lambda st: got.append(util.to_np(st)) or "rendered"
    try:
        b = stack(run.cur)
        for name, w in (("VmapWrapper", ws.VW), ("VmapAutoResetWrapper", ws.VAR)):
            got.clear()
            ret = w.render(b)
            if len(got) != 1 or ret != "rendered":
                raise Violation("C14", ws.adapter.name, "render_first", "render_not_forwarded", f"{name}.render did not call the inner render exactly once")
            d = util.tree_diff(got[0], util.to_np(run.cur[0]))
            if d:
                raise Violation("C14", ws.adapter.name, "render_first", "render_not_first_element", f"{name}.render passed something else than element 0: {d[:2]}")
            stats.check("render_checks")
        # the same with a batch created from new-style typed keys (jax.random.key): every environment accepts them, and
        # "the first element of the batch" must not depend on how many dimensions a single key has
        jax = ws.jax

        def plain(tree: Any) -> Any:
            def leaf(x: Any) -> Any:
                if hasattr(x, "dtype") and jax.dtypes.issubdtype(x.dtype, jax.dtypes.prng_key):
                    return np.asarray(jax.random.key_data(x))
                return np.asarray(x)
            return jax.tree_util.tree_map(leaf, tree)

        B = max(1, len(run.cur))
        tkeys = jax.random.split(jax.random.key(int(run.B) + 17), B)
        for name, w in (("VmapWrapper", ws.VW), ("VmapAutoResetWrapper", ws.VAR)):
            got.clear()
            env.__dict__["render"] = lambda st: got.append(plain(st)) or "rendered"
            bs, _ = w.reset(tkeys)
            first, _ = env.reset(tkeys[0])
            w.render(bs)
            if len(got) != 1:
                raise Violation("C14", ws.adapter.name, "render_first", "render_not_forwarded", f"{name}.render (typed keys) did not call the inner render exactly once")
            d = util.tree_diff(got[0], plain(first))
            if d:
                raise Violation("C14", ws.adapter.name, "render_first", "render_not_first_element",
                                f"{name}.render on a batch reset from typed keys passed something else than element 0: {d[:2]}")
            stats.check("render_checks_typed_keys")
    finally:
        if had:
            env.__dict__["render"] = old
        else:
            del env.__dict__["render"]


def generate_and_run(ws: WrapSys, prop: str, mode: str, rng: np.random.Generator, B: int, stats: Stats, n_segments: int
                     ) -> Tuple[Dict[str, Any], WrapRun]:
    """Scheduler: draws keys, segments, kill sets; executes while generating (policies read states)."""
    run = WrapRun(ws, prop, mode, stats)
    keys = [int(rng.integers(0, 2**31 - 1)) for _ in range(B)]
    ops: Dict[str, Any] = {"keys": keys, "segments": []}
    try:
        return _generate(ws, mode, rng, B, stats, n_segments, run, ops)
    except Violation as v:
        v.ops = ops  # type: ignore[attr-defined]  (the failing segment is the last one)
        raise


def _generate(ws: WrapSys, mode: str, rng: np.random.Generator, B: int, stats: Stats, n_segments: int, run: WrapRun,
              ops: Dict[str, Any]) -> Tuple[Dict[str, Any], WrapRun]:
    run.do_reset(ops["keys"])
    kill_rate = float(rng.choice([0.0, 0.1, 0.3, 0.6]))
    kinds = ["JIT", "VMAP", "SCAN", "SOLO"] if mode == "C13" else ["VMAP", "VMAP", "SCAN", "SOLO"]
    weights = np.asarray([float(rng.integers(1, 4)) for _ in kinds])
    weights /= weights.sum()
    eager_left = 1 if (ws.adapter.name in EAGER_OK and rng.random() < 0.25 and mode == "C13") else 0
    look_left = 1 if (ws.adapter.name in EAGER_OK and rng.random() < 0.3 and mode == "C13") else 0
    static_left = 2 if (rng.random() < 0.3 and mode == "C13") else 0

    def actions_for_all() -> List[Any]:
        pat = rng.random()
        if pat < 0.15:
            kills = [True] * B
        elif pat < 0.3:
            kills = [False] * B
        else:
            kills = [bool(rng.random() < kill_rate) for _ in range(B)]
        return [choose_action(ws, util.to_np(run.cur[i]), run.cur_ts[i], rng, kills[i], stats) for i in range(B)]

    for _ in range(n_segments):
        kind = kinds[int(rng.choice(len(kinds), p=weights))]
        if eager_left and rng.random() < 0.1:
            kind, eager_left = "EAGER", 0
        elif look_left and rng.random() < 0.15:
            kind, look_left = "LOOKAHEAD", 0
        elif static_left and kind == "JIT" and rng.random() < 0.5:
            kind, static_left = "STATIC", static_left - 1
        if kind == "LOOKAHEAD":
            i = int(rng.integers(0, B))
            cands = [choose_action(ws, util.to_np(run.cur[i]), run.cur_ts[i], rng, bool(j == 0 and rng.random() < 0.5), stats) for j in range(3)]
            seg = ["LOOKAHEAD", i, cands]
        elif kind == "SOLO":
            i = int(rng.integers(0, B))
            a = choose_action(ws, util.to_np(run.cur[i]), run.cur_ts[i], rng, bool(rng.random() < kill_rate), stats)
            seg = ["SOLO", i, a]
        elif kind == "SCAN":
            # the actions of a scan burst are fixed in advance: follow the reference composition forward
            sim_s = list(run.ref)
            sim_ts = list(run.cur_ts)
            steps = []
            for _t in range(ws.k):
                acts = []
                for i in range(B):
                    a = choose_action(ws, util.to_np(sim_s[i]), sim_ts[i], rng, bool(rng.random() < kill_rate), stats)
                    acts.append(a)
                    s1, ts1, last, tkey = run.expected(sim_s[i], a)
                    if last:
                        s1, ts0 = ws.ref_reset(ws.jax.random.split(tkey)[0])
                        ts1 = ts1.replace(observation=ts0.observation)
                    sim_s[i], sim_ts[i] = s1, util.to_np(ts1)
                steps.append(acts)
            seg = ["SCAN", steps]
        else:
            seg = [kind, actions_for_all()]
        seg = util.jsonable(seg)
        ops["segments"].append(seg)
        run.do_segment(seg)
    run.on_end()
    if mode == "C14":
        render_check(ws, run, stats)
    return ops, run


def execute(ws: WrapSys, prop: str, mode: str, ops: Dict[str, Any], stats: Stats) -> None:
    run = WrapRun(ws, prop, mode, stats)
    run.do_reset(ops["keys"])
    for seg in ops["segments"]:
        run.do_segment(seg)
    run.on_end()
    if mode == "C14":
        render_check(ws, run, stats)


def run_task(prop: Any, task: Dict[str, Any]) -> Dict[str, Any]:
    from jsim import envs

    mode = prop.id
    adapter = envs.get(task["env"])
    cfg = task["cfg"]
    t0 = time.time()
    shard = task["shard"]
    # next_obs_in_extras: both settings per configuration (alternating over the shards, starting point per config)
    flag = bool((shard + util.crc(cfg["id"] + task["env"])) % 2)
    B = task.get("B", 3)
    from jsim.core import construct

    task["flag"] = flag
    wide = bool((shard + util.crc("wide" + cfg["id"] + task["env"])) % 2)
    task["wide"] = wide
    ws = construct(WrapSys, adapter, cfg, flag, scan_len=task.get("scan_len", 3), wide=wide)

    ws.mode = mode
    stats = Stats()
    digests: List[int] = []
    nontrivial: List[bool] = []
    samples: List[Any] = []
    violations: List[Dict[str, Any]] = []
    seen = set()
    n_runs = task.get("runs")
    deadline = t0 + task["wall"] if task.get("wall") else None
    i = 0
    det_ok = None
    while True:
        if n_runs is not None and i >= n_runs:
            break
        if deadline is not None and time.time() > deadline and i >= 2:
            break
        rng = util.sub_rng(task["seed"], mode, task["env"], cfg["id"], shard, i)
        nseg = int(rng.integers(6, 25)) if not cfg.get("drive") else int(rng.integers(*cfg.get("drive_segments", (120, 200))))
        resets_before = stats.probes.get("auto_resets", 0)
        steps_before = stats.steps
        try:
            if ws.wide:
                stats.inc(stats.faults, "WIDE_ACTION")  # runs with int32 actions for a narrower integer spec
            ops, run = generate_and_run(ws, mode, mode, rng, B, stats, nseg)
        except Violation as v:
            key = (v.monitor, v.cls)
            ops = v.ops  # type: ignore[attr-defined]
            if key not in seen and len(violations) < 6:
                seen.add(key)

                def still(cand: List[Any]) -> bool:
                    try:
                        execute(ws, mode, mode, {"keys": ops["keys"], "segments": cand[1:]}, Stats())
                    except Violation as v2:
                        return (v2.monitor, v2.cls) == key
                    return False

                small = shrink([["reset"]] + ops["segments"], still, budget=40)[1:]
                detail = v.detail
                try:
                    execute(ws, mode, mode, {"keys": ops["keys"], "segments": small}, Stats())
                    small = ops["segments"]
                except Violation as v3:
                    detail = v3.detail
                violations.append({"property": mode, "env": task["env"], "config": cfg, "seed": task["seed"], "shard": shard, "run": i,
                                   "monitor": v.monitor, "class": v.cls, "detail": detail, "B": B, "flag": flag, "wide": wide, "scan_len": ws.k,
                                   "ops": {"keys": ops["keys"], "segments": small}, "ops_unminimised": ops})
            stats.probe("runs_ending_in_violation")
            i += 1
            continue
        stats.runs += 1
        h = util.crc(util.canon(ops)) | (util.crc(util.canon([util.state_digest(util.to_np(s)) for s in run.cur])) << 32)
        digests.append(int(h))
        nres = stats.probes.get("auto_resets", 0) - resets_before
        nontrivial.append(bool(stats.steps - steps_before >= 3 and nres >= 1))
        if len(samples) < 2:
            samples.append({"env": task["env"], "config": cfg["id"], "B": B, "next_obs_in_extras": flag, "keys": ops["keys"],
                            "segments": ops["segments"][:6], "n_segments": len(ops["segments"])})
        if i == 0:
            try:
                ops2 = _regenerate(ws, mode, task, cfg, shard, 0, B)
                det_ok = util.canon(ops2) == util.canon(ops)
            except Violation:
                det_ok = None
        i += 1
    return {
        "task": {"prop": mode, "env": task["env"], "cfg": cfg["id"], "shard": shard},
        "runs": stats.runs, "attempted": i, "steps": stats.steps, "faults": stats.faults, "policies": {},
        "transports": stats.transports, "probes": stats.probes, "checks": stats.checks,
        "states": np.fromiter(stats.states, dtype=np.uint64, count=len(stats.states)).tobytes(), "n_states": len(stats.states),
        "digests": digests, "nontrivial": nontrivial, "samples": samples, "violations": violations, "det_ok": det_ok,
        "wall": time.time() - t0,
    }


def _regenerate(ws: WrapSys, mode: str, task: Dict[str, Any], cfg: Dict[str, Any], shard: int, i: int, B: int) -> Dict[str, Any]:
    """Determinism probe: re-run the generator for run i; the ops must be identical."""
    rng = util.sub_rng(task["seed"], mode, task["env"], cfg["id"], shard, i)
    nseg = int(rng.integers(6, 25)) if not cfg.get("drive") else int(rng.integers(*cfg.get("drive_segments", (120, 200))))
    ops, _ = generate_and_run(ws, mode, mode, rng, B, Stats(), nseg)
    return ops


def replay(prop: Any, v: Dict[str, Any], path: str) -> int:
    from jsim import envs

    adapter = envs.get(v["env"])
    from jsim.core import construct

    ws = construct(WrapSys, adapter, v["config"], bool(v.get("flag", False)), int(v.get("scan_len", 3)), wide=bool(v.get("wide", False)))
    ws.mode = prop.id
    if v.get("construction_only"):
        return 0
    try:
        execute(ws, prop.id, prop.id, v["ops"], Stats())
    except Violation as got:
        if (got.monitor, got.cls) == (v["monitor"], v["class"]):
            print(f"VIOLATION property={v['property']} replay={path}")
            print(f"  env={v['env']} config={v['config']['id']} monitor={got.monitor} class={got.cls}: {got.detail[:300]}")
            return 1
    print(f"replay: no violation of class {v['monitor']}/{v['class']} reproduced from {path}")
    return 0
