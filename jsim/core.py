"""Core of the simulator: system under simulation, op drivers (scheduler / replayer), monitors
protocol, violation type, ddmin shrinker.

A *run* is a list of ops: ["reset", key_int] followed by ["step", action, fault_tag]. The scheduler
produces ops from a seeded PRNG while looking at the (omniscient) state; the replayer feeds a
recorded list back. Monitors never draw from the scheduler's PRNG.
"""
from __future__ import annotations

import hashlib
from typing import Any, Callable, Dict, List, Optional, Sequence, Tuple

import numpy as np

from jsim import util


class Violation(Exception):
    def __init__(self, prop: str, env: str, monitor: str, cls: str, detail: str):
        super().__init__(f"{prop}/{env}/{monitor}/{cls}: {detail}")
        self.prop = prop
        self.env = env
        self.monitor = monitor
        self.cls = cls
        self.detail = detail

    def key(self) -> Tuple[str, str, str, str]:
        return (self.prop, self.env, self.monitor, self.cls)


class ConstructionRaised(Exception):
    """Building the system under simulation from a menu configuration raised. Every menu entry is a documented, valid
    constructor call (it builds on the unchanged tree), so this is reported as a violation (class construction_raised)."""

    def __init__(self, orig: BaseException):
        super().__init__(f"{type(orig).__name__}: {orig}")
        self.orig = orig


def construct(fn: Any, *args: Any, **kw: Any) -> Any:
    try:
        return fn(*args, **kw)
    except Exception as e:  # noqa: BLE001
        raise ConstructionRaised(e) from e


def construction_result(task: Dict[str, Any], e: "ConstructionRaised") -> Dict[str, Any]:
    cfg = task["cfg"]
    o = e.orig
    v = {"property": task["prop"], "env": task["env"], "config": cfg, "seed": task["seed"], "shard": task["shard"], "run": 0,
         "monitor": "execution", "class": "construction_raised:" + type(o).__name__,
         "detail": f"building {task['env']} from configuration {cfg['id']} raised {type(o).__name__}: {str(o)[:300]}",
         "ops": [], "ops_unminimised": [], "plan": {}}
    for k in ("kind", "aggregators", "B", "flag", "wide", "scan_len"):
        if k in task:
            v[k] = task[k]
    return {"task": {k: task[k] for k in ("prop", "env", "shard")} | {"cfg": cfg["id"]}, "runs": 0, "attempted": 0, "steps": 0,
            "faults": {}, "policies": {}, "transports": {}, "probes": {"construction_raised": 1}, "checks": {}, "states": b"",
            "n_states": 0, "digests": [], "nontrivial": [], "samples": [], "violations": [v], "det_ok": None, "wall": 0.0}


class Stats:
    """Counters a worker accumulates; merged by the engine."""

    def __init__(self) -> None:
        self.faults: Dict[str, int] = {}
        self.policies: Dict[str, int] = {}
        self.transports: Dict[str, int] = {}
        self.probes: Dict[str, int] = {}
        self.checks: Dict[str, int] = {}
        self.states: set = set()
        self.steps = 0
        self.runs = 0

    def inc(self, d: Dict[str, int], k: str, n: int = 1) -> None:
        d[k] = d.get(k, 0) + n

    def probe(self, name: str, n: int = 1) -> None:
        self.inc(self.probes, name, n)

    def check(self, name: str, n: int = 1) -> None:
        self.inc(self.checks, name, n)


class Sys:
    """The real jumanji objects for one (env, config), jit-compiled once per worker."""

    def __init__(self, adapter: Any, cfg: Dict[str, Any]):
        import jax
        import jax.numpy as jnp

        self.jax = jax
        self.jnp = jnp
        self.adapter = adapter
        self.cfg = cfg
        self.env = adapter.build(cfg)
        self.reset_fn = jax.jit(self.env.reset)
        self.step_fn = jax.jit(self.env.step)
        self._fork = None
        self.action_dtype = self.env.action_spec.dtype

    def key(self, k: int) -> Any:
        return self.jax.random.PRNGKey(int(k))

    def act(self, a: Any) -> Any:
        return self.jnp.asarray(a, dtype=self.action_dtype)

    def reset(self, k: int) -> Tuple[Any, Any]:
        return self.reset_fn(self.key(k))

    def step(self, state: Any, a: Any) -> Tuple[Any, Any]:
        return self.step_fn(state, self.act(a))

    def fork(self, state: Any, actions: np.ndarray) -> Tuple[Any, Any]:
        """Try many actions from one state: jit(vmap(step, in_axes=(None, 0))). Padded to a bucket."""
        jax, jnp = self.jax, self.jnp
        if self._fork is None:
            self._fork = jax.jit(jax.vmap(self.env.step, in_axes=(None, 0)))
        n = len(actions)
        bucket = 8
        while bucket < n:
            bucket *= 2
        acts = np.asarray(actions)
        if bucket != n:
            pad = np.repeat(acts[:1], bucket - n, axis=0)
            acts = np.concatenate([acts, pad], axis=0)
        s, ts = self._fork(state, jnp.asarray(acts, dtype=self.action_dtype))
        s, ts = util.to_np((s, ts))
        cut = lambda x: x[:n]  # noqa: E731
        return jax.tree_util.tree_map(cut, s), jax.tree_util.tree_map(cut, ts)


class Rec:
    """One executed op as the monitors see it."""

    __slots__ = ("t", "kind", "action", "fault", "prev_state", "prev_ts", "state", "ts", "jstate", "jprev", "post_terminal", "ended")

    def __init__(self) -> None:
        self.t = 0
        self.kind = "reset"
        self.action = None
        self.fault = None
        self.prev_state = None
        self.prev_ts = None
        self.state = None
        self.ts = None
        self.jstate = None
        self.jprev = None
        self.post_terminal = False  # this step was taken after a LAST had already been returned
        self.ended = False


class Ctx:
    def __init__(self, sysm: Sys, prop: str, stats: Stats):
        self.sys = sysm
        self.env = sysm.env
        self.adapter = sysm.adapter
        self.cfg = sysm.cfg
        self.prop = prop
        self.stats = stats
        self.history: List[Rec] = []
        self.scratch: Dict[str, Any] = {}

    def fail(self, monitor: str, cls: str, detail: str) -> None:
        raise Violation(self.prop, self.adapter.name, monitor, cls, detail)

    def det_rng(self, np_state: Any, tag: str) -> np.random.Generator:
        """PRNG for monitor-side sampling: a function of the state only (replay- and shrink-stable)."""
        return util.sub_rng(util.state_digest(np_state, skip_key=False) & 0xFFFFFFFF, tag)


class Monitor:
    name = "monitor"

    def applies(self, adapter: Any) -> bool:
        return True

    def on_reset(self, ctx: Ctx, rec: Rec) -> None:
        pass

    def on_step(self, ctx: Ctx, rec: Rec) -> None:
        pass

    def on_end(self, ctx: Ctx) -> None:
        pass


def is_last(ts_np: Any) -> bool:
    return int(np.asarray(ts_np.step_type)) == 2


class OpSource:
    def first(self) -> List[Any]:
        raise NotImplementedError

    def next(self, ctx: Ctx, rec: Rec) -> Optional[List[Any]]:
        raise NotImplementedError


class Replayer(OpSource):
    def __init__(self, ops: Sequence[Sequence[Any]]):
        self.ops = [list(o) for o in ops]
        self.i = 0

    def first(self) -> List[Any]:
        self.i = 1
        return self.ops[0]

    def next(self, ctx: Ctx, rec: Rec) -> Optional[List[Any]]:
        if self.i >= len(self.ops):
            return None
        op = self.ops[self.i]
        self.i += 1
        return op


def drive(sysm: Sys, prop: str, monitors: Sequence[Monitor], source: OpSource, stats: Stats,
          keep_history: bool = True) -> Tuple[List[List[Any]], str]:
    """Execute one run. Returns (ops, trace digest). Raises Violation (with .ops attached)."""
    ctx = Ctx(sysm, prop, stats)
    ops: List[List[Any]] = []
    h = hashlib.sha1()
    op = source.first()
    assert op[0] == "reset"
    ops.append(op)
    try:
        jstate, jts = _answered(ctx, "reset", sysm.reset, op[1])
        rec = Rec()
        rec.kind = "reset"
        rec.jstate = jstate
        rec.state, rec.ts = util.to_np((jstate, jts))
        ctx.history.append(rec)
        ctx.scratch["reset_key"] = op[1]
        stats.states.add(util.state_digest(rec.state))
        h.update(util.canon(op).encode())
        h.update(util.tree_digest((rec.state, rec.ts)).encode())
        _reach(ctx, rec)
        for m in monitors:
            m.on_reset(ctx, rec)
        seen_last = False
        t = 0
        while True:
            op = source.next(ctx, rec)
            if op is None:
                break
            ops.append(op)
            t += 1
            nrec = Rec()
            nrec.kind = "step"
            nrec.t = t
            nrec.action = op[1]
            nrec.fault = op[2] if len(op) > 2 else None
            nrec.prev_state, nrec.prev_ts, nrec.jprev = rec.state, rec.ts, rec.jstate
            nrec.post_terminal = seen_last
            jstate, jts = _answered(ctx, f"step {t}", sysm.step, rec.jstate, op[1])
            nrec.jstate = jstate
            nrec.state, nrec.ts = util.to_np((jstate, jts))
            stats.steps += 1
            if nrec.fault and nrec.fault != "FORCED_ILLEGAL":
                stats.inc(stats.faults, nrec.fault)
            if not seen_last:
                stats.states.add(util.state_digest(nrec.state))
            h.update(util.canon(op).encode())
            h.update(util.tree_digest((nrec.state, nrec.ts)).encode())
            if keep_history:
                ctx.history.append(nrec)
            else:
                ctx.history = [nrec]
            if not seen_last:
                _reach(ctx, nrec)
            for m in monitors:
                m.on_step(ctx, nrec)
            if is_last(nrec.ts):
                seen_last = True
            rec = nrec
        for m in monitors:
            m.on_end(ctx)
    except Violation as v:
        v.ops = ops  # type: ignore[attr-defined]
        raise
    stats.runs += 1
    return ops, h.hexdigest()


def _answered(ctx: Ctx, where: str, fn: Any, *args: Any) -> Any:
    """The simulator only sends well-formed requests (keys, and actions inside the action spec). An environment that
    raises on one (shape / dtype / tracer errors in some configuration or after some history) returns nothing of what
    the property under check says it returns: reported as a violation of that property, class ``request_raised``."""
    try:
        return fn(*args)
    except Exception as e:  # noqa: BLE001
        ctx.fail("execution", "request_raised:" + type(e).__name__, f"{where}: the environment raised {type(e).__name__}: {str(e)[:300]}")


def _reach(ctx: Ctx, rec: Rec) -> None:
    """Reach measurement: count the rare conditions ("was this branch hit") the adapter recognises in this transition.
    Never part of a verdict, never draws from the scheduler's PRNG, never raises."""
    try:
        names = ctx.adapter.events(rec.prev_state, rec.action, rec.state, rec.ts, ctx.env, ctx.cfg) or []
    except Exception:  # noqa: BLE001
        names = ["events_hook_error"]
    pre = "ev:" + ctx.adapter.name + ":"
    for n in names:
        ctx.stats.probe(pre + str(n))
    if rec.kind == "step" and is_last(rec.ts):
        ctx.stats.probe(pre + "episode_ended")
        tl = ctx.adapter.time_limit(ctx.env, ctx.cfg)
        if tl is not None and rec.t >= tl:
            ctx.stats.probe(pre + "ended_at_time_limit")


def replay_violates(sysm: Sys, prop: str, monitors: Sequence[Monitor], ops: Sequence[Sequence[Any]],
                    want: Optional[Tuple[str, str]] = None) -> Optional[Violation]:
    """Re-execute ops verbatim; return the violation if (monitor, class) == want (or any if None)."""
    try:
        drive(sysm, prop, monitors, Replayer(ops), Stats())
    except Violation as v:
        if want is None or (v.monitor, v.cls) == want:
            return v
        return None
    return None


def shrink(ops: List[List[Any]], still_fails: Callable[[List[List[Any]]], bool], budget: int = 120) -> List[List[Any]]:
    """ddmin over the step ops (the reset op is kept), bounded by a re-execution budget."""
    head, steps = ops[:1], list(ops[1:])
    calls = 0

    def test(cand: List[List[Any]]) -> bool:
        nonlocal calls
        calls += 1
        return still_fails(head + cand)

    # 1. truncate the tail (the violation was raised at the last op, so this is usually a no-op)
    n = 2
    while len(steps) >= 2 and calls < budget:
        chunk = max(1, len(steps) // n)
        reduced = False
        for i in range(0, len(steps), chunk):
            cand = steps[:i] + steps[i + chunk:]
            if cand and calls < budget and test(cand):
                steps = cand
                n = max(n - 1, 2)
                reduced = True
                break
        if not reduced:
            if chunk == 1:
                break
            n = min(len(steps), n * 2)
    # 2. drop fault tags that are only informational (keeps the replay file honest but simple)
    return head + steps
