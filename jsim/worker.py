"""Worker side: executes one task (property, env, config, shard) in a fresh interpreter."""
from __future__ import annotations

import faulthandler
import os
import sys
import time
import traceback
from typing import Any, Dict, List

import numpy as np

_JAX_READY = False


def _init_jax() -> None:
    global _JAX_READY
    if _JAX_READY:
        return
    import jax

    cache = os.environ.get("JSIM_CACHE", "/verif/.cache/jax")
    try:
        os.makedirs(cache, exist_ok=True)
        jax.config.update("jax_compilation_cache_dir", cache)
        jax.config.update("jax_persistent_cache_min_compile_time_secs", 0.3)
        jax.config.update("jax_persistent_cache_min_entry_size_bytes", 0)
    except Exception:  # noqa: BLE001
        pass
    import jumanji

    assert os.path.realpath(jumanji.__file__).startswith(os.path.realpath(os.environ.get("JSIM_REPO", "/repo")) + "/"), jumanji.__file__
    _JAX_READY = True


def run_generic(task: Dict[str, Any]) -> Dict[str, Any]:
    """Generic closed loop for one (property, env, config, shard)."""
    from jsim import envs, props, util
    from jsim.core import Stats, Sys, Violation, construct, drive, replay_violates, shrink

    prop = props.get(task["prop"])
    adapter = envs.get(task["env"])
    cfg = task["cfg"]
    t0 = time.time()
    sysm = construct(Sys, adapter, cfg)
    monitors = [m for m in prop.monitors(adapter) if m.applies(adapter)]
    stats = Stats()
    rng = util.sub_rng(task["seed"], task["prop"], task["env"], cfg["id"], task["shard"])
    digests: List[int] = []
    nontrivial: List[bool] = []
    samples: List[Any] = []
    violations: List[Dict[str, Any]] = []
    seen_classes = set()
    det_ok = None
    n_runs = task.get("runs")
    deadline = t0 + task["wall"] if task.get("wall") else None
    i = 0
    while True:
        if n_runs is not None and i >= n_runs:
            break
        if deadline is not None and time.time() > deadline and i >= 2:
            break
        if i > 200000:
            break
        run_rng = util.sub_rng(task["seed"], task["prop"], task["env"], cfg["id"], task["shard"], i)
        plan = prop.plan(run_rng, adapter, sysm.env, cfg)
        src = prop.source(sysm, run_rng, plan)
        faults_before = sum(stats.faults.values())
        steps_before = stats.steps
        checks_before = sum(stats.checks.values())
        try:
            ops, dg = drive(sysm, task["prop"], monitors, src, stats, keep_history=prop.keep_history)
        except Violation as v:
            ops = v.ops  # type: ignore[attr-defined]
            key = (v.monitor, v.cls)
            if key not in seen_classes and len(violations) < 6:
                seen_classes.add(key)

                def still(cand: List[List[Any]]) -> bool:
                    return replay_violates(sysm, task["prop"], monitors, cand, key) is not None

                try:
                    small = shrink(ops, still, budget=80)
                    v2 = replay_violates(sysm, task["prop"], monitors, small, key)
                    detail = v2.detail if v2 is not None else v.detail
                    if v2 is None:
                        small = ops
                except Exception:  # noqa: BLE001
                    small, detail = ops, v.detail
                violations.append({"property": task["prop"], "env": task["env"], "config": cfg, "seed": task["seed"],
                                   "shard": task["shard"], "run": i, "monitor": v.monitor, "class": v.cls,
                                   "detail": detail, "ops": util.jsonable(small), "ops_unminimised": util.jsonable(ops),
                                   "plan": plan.describe()})
            stats.probe("runs_ending_in_violation")
            i += 1
            continue
        nsteps = stats.steps - steps_before
        nf = sum(stats.faults.values()) - faults_before
        nchecks = sum(stats.checks.values()) - checks_before
        digests.append(int(dg[:15], 16))
        nontrivial.append(bool(nsteps >= 3 and nchecks > 0 and (nf > 0 or not prop.needs_fault)))
        if len(samples) < 2:
            samples.append({"env": task["env"], "config": cfg["id"], "ops": util.jsonable(ops[:12]), "n_ops": len(ops),
                            "plan": plan.describe()})
        if i == 0:
            # light determinism probe: the same sub-seed must reproduce the same trace digest
            run_rng2 = util.sub_rng(task["seed"], task["prop"], task["env"], cfg["id"], task["shard"], 0)
            plan2 = prop.plan(run_rng2, adapter, sysm.env, cfg)
            try:
                _, dg2 = drive(sysm, task["prop"], monitors, prop.source(sysm, run_rng2, plan2), Stats(), keep_history=prop.keep_history)
                det_ok = dg2 == dg
            except Violation:
                det_ok = False
        i += 1
    return {
        "task": {k: task[k] for k in ("prop", "env", "shard")} | {"cfg": cfg["id"]},
        "runs": stats.runs, "attempted": i, "steps": stats.steps, "faults": stats.faults, "policies": stats.policies,
        "transports": {"JIT": stats.steps}, "probes": stats.probes, "checks": stats.checks,
        "states": np.fromiter(stats.states, dtype=np.uint64, count=len(stats.states)).tobytes() if len(stats.states) <= 400000 else b"",
        "n_states": len(stats.states),
        "digests": digests, "nontrivial": nontrivial, "samples": samples, "violations": violations,
        "det_ok": det_ok, "wall": time.time() - t0,
    }


def run_task(task: Dict[str, Any]) -> Dict[str, Any]:
    """Entry point executed in the pool. Never raises: harness errors are returned as such."""
    faulthandler.enable()
    hard = int(task.get("hard_timeout", 900))
    faulthandler.dump_traceback_later(hard, exit=True)
    try:
        _init_jax()
        from jsim import props

        prop = props.get(task["prop"])
        from jsim.core import ConstructionRaised, construction_result

        try:
            res = prop.run_task(task) if prop.custom else run_generic(task)
        except ConstructionRaised as ce:
            res = construction_result(task, ce)
        return res
    except BaseException as e:  # noqa: BLE001
        return {"task": {k: task.get(k) for k in ("prop", "env", "shard")} | {"cfg": task.get("cfg", {}).get("id")},
                "harness_error": f"{type(e).__name__}: {e}\n{traceback.format_exc()}"}
    finally:
        faulthandler.cancel_dump_traceback_later()
        sys.stdout.flush()
