#!/venv/bin/python
"""Detection robustness: run the registered quick check of the broken property against every seeded change under
another VERIF_SEED (scratch worktree, JSIM_REPO) and record rc per seed in seeded/<id>/multiseed.json.
Usage: seed_multi.py <VERIF_SEED> [ids...]"""
import glob, json, os, subprocess, sys

seed = sys.argv[1]
ids = sys.argv[2:] or sorted(os.path.basename(d) for d in glob.glob("/verif/seeded/C*-*"))
for sid in ids:
    d = f"/verif/seeded/{sid}"
    p = subprocess.run(["/verif/tools/seedcheck.py", d, "--seed", seed], capture_output=True, text=True,
                       env=dict(os.environ, VERIF_WORKERS=os.environ.get("VERIF_WORKERS", "8")))
    try:
        res = json.loads(p.stdout[p.stdout.index("{"):])
        row = {k: {"rc": v["rc"], "wall": v["wall"], "first": (v["violations"][1:2] or [""])[0][:200]} for k, v in res.get("checks", {}).items()}
    except Exception as e:  # noqa: BLE001
        row = {"error": str(e), "stderr": p.stderr[-300:]}
    path = f"{d}/multiseed.json"
    ms = json.load(open(path)) if os.path.exists(path) else {}
    ms[str(seed)] = row
    json.dump(ms, open(path, "w"), indent=1, sort_keys=True)
    print(sid, seed, {k: v.get("rc") if isinstance(v, dict) else v for k, v in row.items()}, flush=True)
