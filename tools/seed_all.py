#!/venv/bin/python
"""Run the registered quick check of the broken property against every seeded change (scratch worktree,
JSIM_REPO) and record the outcome in seeded/<id>/result.json. Usage: seed_all.py [ids...]"""
import json, os, subprocess, sys, glob

ids = sys.argv[1:] or sorted(os.path.basename(d) for d in glob.glob("/verif/seeded/C*-*"))
rows = []
for sid in ids:
    d = f"/verif/seeded/{sid}"
    p = subprocess.run(["/verif/tools/seedcheck.py", d] + (["--confirm"] if os.environ.get("SEED_CONFIRM") else []), capture_output=True, text=True, env=dict(os.environ, VERIF_WORKERS=os.environ.get("VERIF_WORKERS", "8")))
    try:
        res = json.loads(p.stdout[p.stdout.index("{"):])
    except Exception as e:  # noqa: BLE001
        res = {"id": sid, "error": str(e), "stdout": p.stdout[-500:], "stderr": p.stderr[-500:]}
    # keep the confirmation fields (demo exit codes, test run) of an earlier --confirm pass
    if os.path.exists(f"{d}/result.json"):
        old = json.load(open(f"{d}/result.json"))
        for k in ("demo_without_change", "demo_with_change", "tests_rc", "tests_tail"):
            if k not in res and k in old:
                res[k] = old[k]
    json.dump(res, open(f"{d}/result.json", "w"), indent=1)
    c = list(res.get("checks", {}).values())
    rows.append((sid, [ (k, v["rc"]) for k, v in res.get("checks", {}).items()]))
    print(sid, rows[-1][1], flush=True)
