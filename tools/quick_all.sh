#!/bin/bash
# Run every registered quick check in /verif against /repo (evidence is rewritten); print one summary line per property.
cd "$(dirname "$0")/.." || exit 2
for p in ${*:-C01 C02 C03 C04 C05 C06 C07 C08 C09 C11 C12 C13 C14 C15 C17 C18}; do
  t0=$(date +%s); out=$(./check run --property $p --tier quick 2>&1); rc=$?
  echo "$p rc=$rc $(( $(date +%s) - t0 ))s $(echo "$out" | grep '^jsim: property=.* runs=' | cut -c1-200)"
  echo "$out" | grep "VIOLATION\|HARNESS\|KNOWN-FINDING\|^  env=" | cut -c1-400
done
