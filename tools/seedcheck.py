#!/venv/bin/python
"""Run jsim checks against one seeded change in a scratch worktree (never in /repo).

usage: seedcheck.py <seeded/<id> dir> [--props C04,C09] [--tier quick] [--envs A,B] [--confirm]
--confirm additionally checks that the demo fails with the patch and passes without it and runs the
test files listed in meta.json["tests"] with the patch applied.
"""
import argparse
import json
import os
import shutil
import subprocess
import sys
import time


def sh(cmd, **kw):
    return subprocess.run(cmd, shell=True, capture_output=True, text=True, **kw)


ADAPTER = {"game_2048": "Game2048", "graph_coloring": "GraphColoring", "minesweeper": "Minesweeper", "rubiks_cube": "RubiksCube",
           "sliding_tile_puzzle": "SlidingTilePuzzle", "sudoku": "Sudoku", "bin_pack": "BinPack", "flat_pack": "FlatPack", "job_shop": "JobShop",
           "knapsack": "Knapsack", "tetris": "Tetris", "cleaner": "Cleaner", "connector": "Connector", "cvrp": "CVRP", "lbf": "LevelBasedForaging",
           "maze": "Maze", "mmst": "MMST", "multi_cvrp": "MultiCVRP", "pac_man": "PacMan", "robot_warehouse": "RobotWarehouse", "snake": "Snake",
           "sokoban": "Sokoban", "tsp": "TSP"}


def derive_envs(patch):
    """Adapter names of the environment packages a patch touches; '' when it touches anything shared."""
    import re
    names = set()
    for ln in open(patch):
        if ln.startswith("+++ b/"):
            m = re.match(r"\+\+\+ b/jumanji/environments/(logic|packing|routing)/([a-z_0-9]+)/", ln)
            if not m or m.group(2) not in ADAPTER:
                return ""
            names.add(ADAPTER[m.group(2)])
    return ",".join(sorted(names))


def main():
    ap = argparse.ArgumentParser()
    ap.add_argument("dir")
    ap.add_argument("--props", default="")
    ap.add_argument("--tier", default="quick")
    ap.add_argument("--envs", default=None)
    ap.add_argument("--confirm", action="store_true")
    ap.add_argument("--seed", default="0")
    a = ap.parse_args()
    d = os.path.abspath(a.dir)
    meta = json.load(open(os.path.join(d, "meta.json")))
    sid = os.path.basename(d)
    wt = f"/tmp/sv/{sid}"
    out = f"/tmp/sv/out/{sid}"
    os.makedirs("/tmp/sv/out", exist_ok=True)
    sh(f"git -C /repo worktree remove --force {wt}")
    r = sh(f"git -C /repo worktree add --detach {wt} HEAD")
    if r.returncode:
        print("worktree failed", r.stderr)
        return 2
    res = {"id": sid, "property": meta["property"]}
    auto_envs = derive_envs(os.path.join(d, "patch.diff"))
    try:
        env = dict(os.environ, PYTHONPATH=wt, JAX_PLATFORMS="cpu", PYTHONWARNINGS="ignore")
        demo = os.path.join(d, meta.get("demo", "demo.py"))
        if a.confirm:
            r0 = subprocess.run(["/venv/bin/python", demo], cwd=wt, env=env, capture_output=True, text=True, timeout=1800)
            res["demo_without_change"] = r0.returncode
        r = sh(f"git -C {wt} apply {os.path.join(d, 'patch.diff')}")
        if r.returncode:
            print("patch does not apply:", r.stderr)
            return 2
        if a.confirm:
            r1 = subprocess.run(["/venv/bin/python", demo], cwd=wt, env=env, capture_output=True, text=True, timeout=1800)
            res["demo_with_change"] = r1.returncode
            tests = meta.get("tests", [])
            if tests:
                rt = subprocess.run(["/venv/bin/python", "-m", "pytest", "-q", "-p", "no:cacheprovider", "-x"] + tests, cwd=wt, env=env,
                                    capture_output=True, text=True, timeout=7200)
                res["tests_rc"] = rt.returncode
                res["tests_tail"] = rt.stdout.strip().splitlines()[-1:] if rt.stdout else []
        props = [p for p in (a.props or meta.get("check_props") or meta["property"]).split(",") if p]
        res["checks"] = {}
        for p in props:
            e2 = dict(os.environ, JSIM_REPO=wt, JSIM_OUT=out, VERIF_SEED=a.seed, PYTHONWARNINGS="ignore")
            envs = a.envs if a.envs is not None else meta.get("envs", "")
            if not envs and auto_envs and p not in ("C17", "C18") and not os.environ.get("SEED_ALL_ENVS"):
                # a change confined to one environment's package can only show in that environment's tasks: the other
                # tasks of the check are independent of it (own process, own sub-seeds), so they are skipped here
                envs = auto_envs
                res.setdefault("envs_filter", auto_envs)
            if envs:
                e2["VERIF_ENVS"] = envs
            t0 = time.time()
            rc = subprocess.run(["/verif/check", "run", "--property", p, "--tier", a.tier], env=e2, capture_output=True, text=True, timeout=7200)
            lines = [ln for ln in rc.stdout.splitlines() if ln.startswith("VIOLATION") or ln.startswith("  env=")]
            res["checks"][p] = {"rc": rc.returncode, "wall": round(time.time() - t0, 1), "violations": lines[:6]}
            # the replay file must reproduce in a fresh process on the changed tree ...
            paths = [ln.split("replay=")[1].strip() for ln in rc.stdout.splitlines() if ln.startswith("VIOLATION") and "replay=" in ln]
            if paths:
                rr = subprocess.run(["/verif/check", "replay", paths[0]], env=e2, capture_output=True, text=True, timeout=3600)
                res["checks"][p]["replay_on_changed_tree_rc"] = rr.returncode
                res["checks"][p]["replay_file"] = paths[0]
            if rc.returncode == 2:
                res["checks"][p]["stderr"] = rc.stderr[-800:]
    finally:
        sh(f"git -C /repo worktree remove --force {wt}")
        shutil.rmtree(wt, ignore_errors=True)
    # ... and must not reproduce on the unchanged tree
    for p, c in res.get("checks", {}).items():
        if c.get("replay_file"):
            e3 = dict(os.environ, JSIM_OUT=out, PYTHONWARNINGS="ignore")
            e3.pop("JSIM_REPO", None)
            rr = subprocess.run(["/verif/check", "replay", c["replay_file"]], env=e3, capture_output=True, text=True, timeout=3600)
            c["replay_on_unchanged_tree_rc"] = rr.returncode
    print(json.dumps(res, indent=1))
    return 0


if __name__ == "__main__":
    sys.exit(main())
