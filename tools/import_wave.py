#!/venv/bin/python
"""Copy a sub-agent's deliverable (<root>/<P>/_seed/{patch,demo,meta}_k) into /verif/seeded/<P>-<as_k>/.
usage: import_wave.py <root> <P> <k> <as_k> [wave label]"""
import json, os, shutil, sys
root, P, k, as_k = sys.argv[1:5]
wave = sys.argv[5] if len(sys.argv) > 5 else "wave 5"
src = f"{root}/{P}/_seed"
dst = f"/verif/seeded/{P}-{as_k}"
os.makedirs(dst, exist_ok=True)
shutil.copy(f"{src}/patch_{k}.diff", f"{dst}/patch.diff")
shutil.copy(f"{src}/demo_{k}.py", f"{dst}/demo.py")
m = json.load(open(f"{src}/meta_{k}.json"))
tests = m.get("tests") or []
if isinstance(tests, str):
    tests = [tests]
# the registry test needs the network (Sokoban dataset) and fails on the unchanged tree too: never part of the confirmation
tests = [t for t in tests if "registration_test" not in t]
meta = {"property": P, "summary": m.get("summary"), "needs": m.get("needs"),
        "author": "independent sub-agent given only the property text and a scratch worktree (" + wave + ")",
        "author_tests_run": m.get("tests_run"), "demo": "demo.py", "tests": tests}
json.dump(meta, open(f"{dst}/meta.json", "w"), indent=1)
print(dst, (meta["summary"] or "")[:100])
