#!/bin/bash
# Thorough-tier soak of every claimed property (for `vp run`): results go to ./soak_out, never to /verif/evidence.
# usage: tools/soak.sh <VERIF_SEED> <budget seconds per property> <workers> [properties...]
cd "$(dirname "$0")/.." || exit 2
seed=$1; budget=$2; workers=$3; shift 3
props=${*:-C01 C02 C03 C04 C05 C06 C07 C08 C09 C11 C12 C13 C14 C15 C17 C18}
export JSIM_OUT=$PWD/soak_out VERIF_SEED=$seed VERIF_BUDGET_S=$budget VERIF_WORKERS=$workers
for p in $props; do
  echo "=== $p seed=$seed"; ./check run --property $p --tier thorough 2>&1 | grep -v "^WARNING conda" | tail -40; echo "rc=${PIPESTATUS[0]}"
done
