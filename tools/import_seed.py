#!/venv/bin/python
"""Copy a sub-agent's deliverable (/tmp/seed/<P>/_seed/{patch,demo,meta}_k) into /verif/seeded/<P>-<k>/."""
import json, os, shutil, sys
P, k = sys.argv[1], sys.argv[2]
tests = sys.argv[3].split(",") if len(sys.argv) > 3 and sys.argv[3] else []
as_k = sys.argv[4] if len(sys.argv) > 4 else k  # target index (second wave: 3, 4)
src = f"/tmp/seed/{P}/_seed"
dst = f"/verif/seeded/{P}-{as_k}"
os.makedirs(dst, exist_ok=True)
shutil.copy(f"{src}/patch_{k}.diff", f"{dst}/patch.diff")
shutil.copy(f"{src}/demo_{k}.py", f"{dst}/demo.py")
m = json.load(open(f"{src}/meta_{k}.json"))
meta = {"property": P, "summary": m.get("summary"), "needs": m.get("needs"), "author": "independent sub-agent given only the property text and a scratch worktree",
        "author_tests_run": m.get("tests_run"), "demo": "demo.py", "tests": tests}
json.dump(meta, open(f"{dst}/meta.json", "w"), indent=1)
print(dst, meta["summary"][:100] if meta["summary"] else "")
