#!/venv/bin/python
"""Regenerate the table of section 12 of DESIGN.md from seeded/*/{meta,result}.json."""
import glob, json, os, re

rows = []
for d in sorted(glob.glob("/verif/seeded/C*-*")):
    sid = os.path.basename(d)
    m = json.load(open(f"{d}/meta.json"))
    r = json.load(open(f"{d}/result.json")) if os.path.exists(f"{d}/result.json") else {}
    caught = []
    for p, c in r.get("checks", {}).items():
        if c["rc"] == 1:
            cls = sorted({re.search(r"monitor=(\S+) class=(\S+)", v).group(0).replace("monitor=", "").replace(" class=", "/") for v in c["violations"] if "monitor=" in v})
            rep = "replay: changed tree %s, unchanged tree %s" % ({1: "reproduces", 0: "no"}.get(c.get("replay_on_changed_tree_rc"), "?"), {0: "quiet", 1: "ALARM"}.get(c.get("replay_on_unchanged_tree_rc"), "?"))
            caught.append(f"{p} quick: {', '.join(cls)[:140]} ({rep})")
        else:
            caught.append(f"{p} quick: rc {c['rc']} (missed)")
    extra = m.get("also_caught_by", "")
    note = m.get("note", "")
    summ = (m.get("summary") or "").replace("|", "/").replace("\n", " ")
    needs = (m.get("needs") or "").replace("|", "/").replace("\n", " ")
    rows.append(f"| `{sid}` | {summ[:260]} | {needs[:200]} | {'; '.join(caught)}{(' ' + extra) if extra else ''}{(' — ' + note) if note else ''} |")
table = "| id | change | needs | caught by |\n|---|---|---|---|\n" + "\n".join(rows)
p = "/verif/DESIGN.md"
s = open(p).read()
a, b = "<!-- SEED-TABLE-BEGIN -->", "<!-- SEED-TABLE-END -->"
s = s[: s.index(a) + len(a)] + "\n" + table + "\n" + s[s.index(b):]
open(p, "w").write(s)
print(len(rows), "rows")
