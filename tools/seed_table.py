#!/venv/bin/python
"""Regenerate seeded/README.md (one row per seeded change) and the per-property summary of section 12 of DESIGN.md from
seeded/*/{meta,result}.json."""
import glob, json, os, re

def key(d):
    p, k = os.path.basename(d).split("-")
    return (p, int(k))

rows, summary = [], {}
for d in sorted(glob.glob("/verif/seeded/C*-*"), key=key):
    sid = os.path.basename(d)
    m = json.load(open(f"{d}/meta.json"))
    r = json.load(open(f"{d}/result.json")) if os.path.exists(f"{d}/result.json") else {}
    caught, own, sibling = [], False, False
    for p, c in r.get("checks", {}).items():
        if c["rc"] == 1:
            cls = sorted({re.search(r"monitor=(\S+) class=(\S+)", v).group(0).replace("monitor=", "").replace(" class=", "/") for v in c["violations"] if "monitor=" in v})
            rep = "replay: changed tree %s, unchanged tree %s" % ({1: "reproduces", 0: "no"}.get(c.get("replay_on_changed_tree_rc"), "?"), {0: "quiet", 1: "ALARM"}.get(c.get("replay_on_unchanged_tree_rc"), "?"))
            caught.append(f"{p} quick: {', '.join(cls)[:140]} ({rep})")
            own = own or p == m["property"]
            sibling = sibling or p != m["property"]
        else:
            caught.append(f"{p} quick: rc {c['rc']} (missed)")
    note = m.get("note", "")
    summ = (m.get("summary") or "").replace("|", "/").replace("\n", " ")
    needs = (m.get("needs") or "").replace("|", "/").replace("\n", " ")
    rows.append(f"| `{sid}` | {summ[:260]} | {needs[:200]} | {'; '.join(caught)}{(' — ' + note) if note else ''} |")
    s = summary.setdefault(m["property"], {"n": 0, "own": [], "sibling": [], "none": []})
    if not r.get("checks"):
        continue  # imported but not run yet
    s["n"] += 1
    (s["own"] if own else s["sibling"] if sibling else s["none"]).append(sid)
table = ("# Independently seeded changes\n\nOne row per change (`patch.diff`, `demo.py`, `meta.json`, `result.json` in the directory of the same name). "
         "\"caught by\" is the outcome of the registered quick check(s) run against the change in a scratch worktree (`tools/seedcheck.py`), "
         "including the replay of the first replay file on the changed and on the unchanged tree.\n\n"
         "| id | change | needs | caught by |\n|---|---|---|---|\n" + "\n".join(rows) + "\n")
open("/verif/seeded/README.md", "w").write(table)
lines = ["| property | seeded changes | caught by the property's own quick check | caught by a sibling property only | not caught |", "|---|---|---|---|---|"]
for p in sorted(summary):
    s = summary[p]
    lines.append(f"| {p} | {s['n']} | {len(s['own'])} | {', '.join('`%s`' % x for x in s['sibling']) or '-'} | {', '.join('`%s`' % x for x in s['none']) or '-'} |")
tot = sum(s["n"] for s in summary.values())
lines.append(f"| all | {tot} | {sum(len(s['own']) for s in summary.values())} | {sum(len(s['sibling']) for s in summary.values())} | {sum(len(s['none']) for s in summary.values())} |")
p = "/verif/DESIGN.md"
s = open(p).read()
a, b = "<!-- SEED-TABLE-BEGIN -->", "<!-- SEED-TABLE-END -->"
s = s[: s.index(a) + len(a)] + "\nPer change: `seeded/README.md` (what was changed, what it needs, which check and violation class caught it, replay outcomes).\n\n" + "\n".join(lines) + "\n" + s[s.index(b):]
open(p, "w").write(s)
print(len(rows), "rows")
